(* Facts about the stream decoder model: exact reads are independent of the read schedule, and the stream round trip (L6):
   in EVERY reader state whose data starts with an encoding, whose enclosing limits all allow it and whose latch is clear,
   DecodeBebop returns the value and a state advanced by exactly the encoding's length - whatever the chunking. *)
Require Import Bebop.wire.Wire Bebop.wire.WireFacts Bebop.wire.ByteDec Bebop.wire.ByteDecFacts Bebop.wire.StreamDec.
Global Opaque le_enc le_dec.

Definition room (r : er) (n : nat) : Prop := n <= length (data (bs r)) /\ Forall (fun l => n <= l) (limits r).
Definition adv (r : er) (n : nat) (r' : er) : Prop :=
  data (bs r') = skipn n (data (bs r)) /\ limits r' = map (fun l => l - n) (limits r) /\ err r' = err r.

Lemma stack_read_ok : forall ls b want, 0 < want -> want <= length (data b) -> Forall (fun l => want <= l) ls ->
  exists c sch, 0 < c <= want /\
    stack_read ls b want = (firstn c (data b), false, map (fun l => l - c) ls, {| data := skipn c (data b); sched := sch |}).
Proof.
  induction ls as [|n rest IH]; intros b want Hw Hd Hl.
  - cbn [stack_read]. unfold base_read. destruct (data b) as [|x xs] eqn:E; [cbn in Hd; lia|].
    exists (chunk b want), (tl (sched b)). split; [|rewrite <- E; reflexivity].
    unfold chunk. destruct (sched b) as [|c0 ?]; [lia|].
    pose proof (Nat.le_max_l 1 c0). destruct (Nat.min_spec want (Nat.max 1 c0)) as [[? ->]|[? ->]]; lia.
  - inversion Hl as [|? ? Hn Hrest]; subst. cbn [stack_read].
    destruct (Nat.eqb_spec n 0); [lia|].
    rewrite Nat.min_l by lia.
    destruct (IH b want Hw Hd Hrest) as (c & sch & Hc & ->).
    exists c, sch. split; [exact Hc|]. cbn [map]. rewrite firstn_length. rewrite Nat.min_l by lia. reflexivity.
Qed.

Lemma read_full_ok : forall g ls b want acc, want <= g -> want <= length (data b) -> Forall (fun l => want <= l) ls ->
  exists sch, read_full g ls b want acc
    = (acc ++ firstn want (data b), false, map (fun l => l - want) ls, {| data := skipn want (data b); sched := sch |}).
Proof.
  induction g as [|g IH]; intros ls b want acc Hg Hd Hl.
  - assert (want = 0) by lia; subst. cbn. exists (sched b). rewrite app_nil_r.
    rewrite map_ext with (g := fun l => l) by (intros; lia). rewrite map_id. now destruct b.
  - destruct want as [|w].
    + cbn. exists (sched b). rewrite app_nil_r.
      rewrite map_ext with (g := fun l => l) by (intros; lia). rewrite map_id. now destruct b.
    + cbn [read_full].
      destruct (stack_read_ok ls b (S w) ltac:(lia) Hd Hl) as (c & sch & Hc & ->).
      set (b' := {| data := skipn c (data b); sched := sch |}).
      destruct (IH (map (fun l => l - c) ls) b' (S w - length (firstn c (data b))) (acc ++ firstn c (data b))) as [sch' H'].
      * rewrite firstn_length, Nat.min_l by lia. lia.
      * subst b'. cbn [data]. rewrite skipn_length, firstn_length, Nat.min_l by lia. lia.
      * rewrite firstn_length, Nat.min_l by lia. apply Forall_map.
        eapply Forall_impl; [|exact Hl]. intros a Ha. cbn beta in *. lia.
      * exists sch'. rewrite H'. rewrite firstn_length, Nat.min_l by lia. subst b'. cbn [data].
        rewrite <- app_assoc. f_equal. f_equal. f_equal.
        -- f_equal. rewrite <- (firstn_skipn c (firstn (S w) (data b))).
           rewrite firstn_firstn, Nat.min_l by lia. f_equal.
           rewrite skipn_firstn_comm. reflexivity.
        -- rewrite map_map. apply map_ext. intros; lia.
        -- f_equal. rewrite skipn_skipn'. f_equal. lia.
Qed.

Lemma adv_trans r a r1 b r2 : adv r a r1 -> adv r1 b r2 -> adv r (a + b) r2.
Proof.
  intros (D1 & L1 & E1) (D2 & L2 & E2). repeat split.
  - rewrite D2, D1. apply skipn_skipn'.
  - rewrite L2, L1, map_map. apply map_ext. intros; lia.
  - congruence.
Qed.

Lemma adv_refl r : adv r 0 r.
Proof. repeat split. rewrite map_ext with (g := fun l => l) by (intros; lia). now rewrite map_id. Qed.

(* an exact read with a clear latch: the bytes, whatever the schedule *)
Lemma er_read_ok r n : room r n -> err r = false ->
  exists r', er_read r n = (firstn n (data (bs r)), r') /\ adv r n r'.
Proof.
  intros [Hd Hl] Er. unfold er_read. rewrite Er.
  destruct (read_full_ok n (limits r) (bs r) n [] (le_n _) Hd Hl) as [sch ->]. cbn [app].
  eexists. split; [reflexivity|]. repeat split; cbn [bs data limits err]. now rewrite Er.
Qed.

Lemma room_app r a rest n : data (bs r) = a ++ rest -> Forall (fun l => length a <= l) (limits r) -> n <= length a -> room r n.
Proof.
  intros D L H. split; [rewrite D, app_length; lia|]. eapply Forall_impl; [|exact L]. cbn beta. intros; lia.
Qed.

Lemma adv_limits r n r' m : adv r n r' -> Forall (fun l => n + m <= l) (limits r) -> Forall (fun l => m <= l) (limits r').
Proof.
  intros (_ & L & _) H. rewrite L. apply Forall_map. eapply Forall_impl; [|exact H]. cbn beta. intros; lia.
Qed.

Lemma adv_err r n r' : adv r n r' -> err r = false -> err r' = false.
Proof. intros (_ & _ & ->). auto. Qed.

Lemma read_u32_ok r n rest : (n < 2 ^ 32)%N -> data (bs r) = le_enc 4 n ++ rest -> room r 4 -> err r = false ->
  exists r', read_u32 r = (n, r') /\ adv r 4 r'.
Proof.
  intros Hn D Hr Er. unfold read_u32. destruct (er_read_ok r 4 Hr Er) as (r' & -> & A).
  exists r'. split; [|exact A]. rewrite D, firstn_le4, le_dec_enc; [reflexivity|exact Hn].
Qed.

Lemma read_byte0_ok r x rest : data (bs r) = x :: rest -> room r 1 -> err r = false ->
  exists r', read_byte0 r = (x, r') /\ adv r 1 r'.
Proof.
  intros D Hr E. unfold read_byte0. destruct (er_read_ok r 1 Hr E) as (r' & -> & A).
  exists r'. split; [|exact A]. rewrite D. reflexivity.
Qed.

Lemma lim_weaken (r : er) n m : m <= n -> Forall (fun l => n <= l) (limits r) -> Forall (fun l => m <= l) (limits r).
Proof. intros H L. eapply Forall_impl; [|exact L]. cbn beta. intros; lia. Qed.

Lemma sdec_prim_ok p v a rest r :
  enc_prim p v = Some a -> data (bs r) = a ++ rest -> Forall (fun l => length a <= l) (limits r) -> err r = false ->
  exists r', sdec_prim None p r = Ok (v, r') /\ adv r (length a) r'.
Proof.
  unfold enc_prim, sdec_prim. destruct (int_spec p) as [[w sg]|] eqn:E.
  - destruct v; try discriminate. destruct (in_range w sg z) eqn:R; [|discriminate]. intros [= <-] D L Er.
    rewrite le_enc_length in *.
    assert (Hr : room r w) by (split; [rewrite D, app_length, le_enc_length; lia|exact L]).
    destruct (er_read_ok r w Hr Er) as (r' & -> & A).
    exists r'. split; [|exact A]. rewrite D, firstn_le, le_dec_enc by apply of_signed_lt.
    pose proof (int_spec_pos _ _ _ E) as Hw. destruct sg.
    + rewrite to_of_signed by (auto using in_range_signed). reflexivity.
    + destruct (in_range_unsigned w z Hw R) as [-> _]. reflexivity.
  - destruct p; try discriminate E; destruct v; try discriminate.
    + intros [= <-] D L Er. destruct (er_read_ok r 1 (room_app r _ _ 1 D L (le_n _)) Er) as (r' & -> & A).
      exists r'. split; [|exact A]. rewrite D. destruct b; reflexivity.
    + destruct (count_ok _) eqn:Ec; [|discriminate]. intros [= <-] D L Er.
      assert (Hlen : length (le_enc 4 (N.of_nat (length s)) ++ s) = 4 + length s) by (rewrite app_length, le_enc_length; reflexivity).
      assert (D' := D). rewrite <- app_assoc in D'.
      destruct (read_u32_ok r (N.of_nat (length s)) (s ++ rest)) as (r1 & -> & A1); auto.
      { unfold count_ok in Ec. now apply N.ltb_lt. } { eapply room_app; [exact D|exact L|rewrite Hlen; lia]. }
      cbn [count_within negb]. rewrite Nat2N.id.
      assert (D1 : data (bs r1) = s ++ rest). { destruct A1 as (-> & _). rewrite D'. apply skipn_le4. }
      destruct (er_read_ok r1 (length s)) as (r2 & -> & A2).
      { eapply room_app; [exact D1| |lia]. eapply adv_limits; [exact A1|].
        eapply Forall_impl; [|exact L]. cbn beta. intros x Hx. rewrite Hlen in Hx. lia. }
      { eapply adv_err; eauto. }
      exists r2. split; [|rewrite Hlen; eapply adv_trans; eauto]. rewrite D1, firstn_app_len. reflexivity.
    + destruct (Nat.eqb_spec (length s) 16) as [Lg|]; [|discriminate]. intros [= <-] D L Er.
      rewrite permute_length in *.
      assert (Hr : room r 16) by (split; [rewrite D, app_length, permute_length; lia|exact L]).
      destruct (er_read_ok r 16 Hr Er) as (r' & -> & A).
      exists r'. split; [|exact A]. rewrite D. rewrite <- (permute_length s) at 1. rewrite firstn_app_len, nth_map_permute by exact Lg. reflexivity.
Qed.

Lemma lim_app {A} (a b : list A) ls : Forall (fun l => length (a ++ b) <= l) ls -> Forall (fun l => length a + length b <= l) ls.
Proof. intros L. eapply Forall_impl; [|exact L]. cbn beta. intros x. rewrite app_length. auto. Qed.

Lemma skipn_app_len' {A} (a b : list A) k : skipn (length a + k) (a ++ b) = skipn k b.
Proof. induction a; cbn; auto. Qed.

Lemma clamp_id len r : N.to_nat len <= avail r -> clamp len r = N.to_nat len.
Proof. unfold clamp. intros H. rewrite N.min_l by lia. reflexivity. Qed.

Section SRT.
  Variable s : schema.
  Hypothesis Hwf : schema_wf s.

  (* one fuel bound per value, valid in every reader state and for every schedule *)
  Definition SRT (v : value) := forall t a, enc s t v = Some a ->
    exists f0, forall fuel, f0 <= fuel -> forall r rest,
      data (bs r) = a ++ rest -> Forall (fun l => length a <= l) (limits r) -> err r = false ->
      exists r', sdec s None fuel t r = Ok (v, r') /\ adv r (length a) r'.

  Lemma selems_ok t l : Forall SRT l -> forall body, cat_opt (enc s t) l = Some body ->
    exists f0, forall fuel, f0 <= fuel -> forall r rest,
      data (bs r) = body ++ rest -> Forall (fun l => length body <= l) (limits r) -> err r = false ->
      exists r', sdec_elems (sdec s None fuel t) (length l) r = Ok (l, r') /\ adv r (length body) r'.
  Proof.
    induction 1 as [|x xs Hx _ IH]; cbn [cat_opt]; intros body E.
    - inversion E; subst. exists 0. intros fuel _ r rest D L Er. exists r. split; [reflexivity|]. apply adv_refl.
    - destruct (enc s t x) as [a|] eqn:Ex; cbn [obind] in E; [|discriminate].
      destruct (cat_opt (enc s t) xs) as [b|] eqn:Exs; cbn [obind] in E; [|discriminate].
      inversion E; subst. destruct (Hx t a Ex) as [f1 H1]. destruct (IH b eq_refl) as [f2 H2].
      exists (max f1 f2). intros fuel Hf r rest D L Er. cbn [length sdec_elems].
      rewrite <- app_assoc in D. apply lim_app in L.
      destruct (H1 fuel ltac:(lia) r (b ++ rest) D (lim_weaken r (length a + length b) (length a) ltac:(lia) L) Er) as (r1 & -> & A1).
      cbn [obindO].
      destruct (H2 fuel ltac:(lia) r1 rest) as (r2 & -> & A2).
      + destruct A1 as (-> & _). rewrite D. apply skipn_app_len.
      + eapply adv_limits; [exact A1|exact L].
      + eapply adv_err; eauto.
      + cbn [obindO]. exists r2. split; [reflexivity|]. rewrite app_length. eapply adv_trans; eauto.
  Qed.

  Lemma sentries_ok k t l : Forall (fun kv => SRT (fst kv) /\ SRT (snd kv)) l -> forall body,
    cat_opt (fun kv : value * value => a <- enc_prim k (fst kv) ;; b <- enc s t (snd kv) ;; Some (a ++ b)) l = Some body ->
    exists f0, forall fuel, f0 <= fuel -> forall r rest,
      data (bs r) = body ++ rest -> Forall (fun l => length body <= l) (limits r) -> err r = false ->
      exists r', sdec_entries (sdec_prim None k) (sdec s None fuel t) (length l) r = Ok (l, r') /\ adv r (length body) r'.
  Proof.
    induction 1 as [|[kx vx] xs [_ Hx] _ IH]; cbn [cat_opt]; intros body E.
    - inversion E; subst. exists 0. intros fuel _ r rest D L Er. exists r. split; [reflexivity|]. apply adv_refl.
    - cbn [fst snd] in *.
      destruct (enc_prim k kx) as [a|] eqn:Ek; cbn [obind] in E; [|discriminate].
      destruct (enc s t vx) as [a'|] eqn:Ex; cbn [obind] in E; [|discriminate].
      destruct (cat_opt _ xs) as [b|] eqn:Exs; cbn [obind] in E; [|discriminate].
      inversion E; subst. destruct (Hx t a' Ex) as [f1 H1]. destruct (IH b eq_refl) as [f2 H2].
      exists (max f1 f2). intros fuel Hf r rest D L Er. cbn [length sdec_entries].
      rewrite <- !app_assoc in D.
      assert (L' : Forall (fun l => length a + (length a' + length b) <= l) (limits r)).
      { eapply Forall_impl; [|exact L]. cbn beta. intros x0 Hx0. rewrite !app_length in Hx0. lia. }
      destruct (sdec_prim_ok k kx a (a' ++ b ++ rest) r Ek D (lim_weaken r (length a + (length a' + length b)) (length a) ltac:(lia) L') Er) as (r1 & -> & A1).
      cbn [obindO].
      assert (E1 : err r1 = false) by (eapply adv_err; eauto).
      destruct (H1 fuel ltac:(lia) r1 (b ++ rest)) as (r2 & -> & A2); auto.
      { destruct A1 as (-> & _). rewrite D. apply skipn_app_len. }
      { eapply lim_weaken; [|eapply adv_limits; [exact A1|exact L']]. lia. }
      cbn [obindO].
      assert (E2 : err r2 = false) by (eapply adv_err; eauto).
      destruct (H2 fuel ltac:(lia) r2 rest) as (r3 & -> & A3); auto.
      { destruct A2 as (-> & _). destruct A1 as (-> & _). rewrite D, skipn_app_len. apply skipn_app_len. }
      { eapply adv_limits; [exact A2|]. eapply adv_limits; [exact A1|].
        eapply Forall_impl; [|exact L']. cbn beta; intros; lia. }
      cbn [obindO]. exists r3. split; [reflexivity|]. rewrite !app_length.
      replace (length a + length a' + length b) with (length a + (length a' + length b)) by lia.
      eapply adv_trans; [exact A1|]. eapply adv_trans; eauto.
  Qed.

  Lemma sfields_ok l : Forall SRT l -> forall fs a, zip_opt (enc s) fs l = Some a ->
    exists f0, forall fuel, f0 <= fuel -> forall r rest,
      data (bs r) = a ++ rest -> Forall (fun l => length a <= l) (limits r) -> err r = false ->
      exists r', sdec_fields (sdec s None fuel) fs r = Ok (l, r') /\ adv r (length a) r'.
  Proof.
    induction 1 as [|x xs Hx _ IH]; intros [|f fs] a; cbn [zip_opt]; try discriminate.
    - intros [= <-]. exists 0. intros fuel _ r rest D L Er. exists r. split; [reflexivity|]. apply adv_refl.
    - destruct (enc s f x) as [a1|] eqn:Ex; cbn [obind]; [|discriminate].
      destruct (zip_opt (enc s) fs xs) as [b|] eqn:Exs; cbn [obind]; [|discriminate].
      intros [= <-]. destruct (Hx f a1 Ex) as [f1 H1]. destruct (IH fs b Exs) as [f2 H2].
      exists (max f1 f2). intros fuel Hf r rest D L Er. cbn [sdec_fields].
      rewrite <- app_assoc in D. apply lim_app in L.
      destruct (H1 fuel ltac:(lia) r (b ++ rest) D (lim_weaken r (length a1 + length b) (length a1) ltac:(lia) L) Er) as (r1 & -> & A1).
      cbn [obindO].
      assert (E1 : err r1 = false) by (eapply adv_err; eauto).
      rewrite E1, andb_false_r.
      destruct (H2 fuel ltac:(lia) r1 rest) as (r2 & -> & A2).
      + destruct A1 as (-> & _). rewrite D. apply skipn_app_len.
      + eapply adv_limits; [exact A1|exact L].
      + exact E1.
      + cbn [obindO]. exists r2. split; [reflexivity|]. rewrite app_length; eapply adv_trans; eauto.
  Qed.

  Lemma drain_top0 r others : limits r = 0 :: others ->
    data (bs (pop (drain r))) = data (bs r) /\ limits (pop (drain r)) = others /\ err (pop (drain r)) = err r.
  Proof.
    intros L. unfold drain, pop, drain_amount. rewrite L. cbn [fold_right Nat.min bs data limits err map tl skipn].
    repeat split. rewrite map_ext with (g := fun l => l) by (intros; lia). apply map_id.
  Qed.

  Lemma smsg_ok fs_all deps : msg_wf fs_all -> forall l_suf,
    Forall (fun o => match o with Some v => SRT v | None => True end) l_suf ->
    forall fs_pre fs_suf l_pre body,
      fs_all = fs_pre ++ fs_suf -> length l_pre = length fs_pre ->
      zip_opt (msg_field true deps (enc s)) fs_suf l_suf = Some body ->
      exists f0, forall fuel g, f0 <= fuel -> length body < g -> forall r rest others,
        data (bs r) = body ++ 0%N :: rest -> limits r = (length body + 1) :: others ->
        Forall (fun l => length body + 1 <= l) others -> err r = false ->
        exists r', smsg_loop (sdec s None fuel) fs_all g r (l_pre ++ map (fun _ => None) fs_suf) = Ok (l_pre ++ l_suf, r')
                   /\ data (bs r') = rest /\ limits r' = map (fun l => l - (length body + 1)) others /\ err r' = false.
  Proof.
    intros [Hnd Hnz]. induction 1 as [|o xs Ho _ IH]; intros fs_pre [|[i f] fs'] l_pre body Hall Hlen;
      cbn [zip_opt]; try discriminate.
    - intros [= <-]. exists 0. intros fuel [|g] _ Hg r rest others D L Lo Er; [cbn in Hg; lia|].
      cbn [smsg_loop app length plus] in *.
      destruct (read_byte0_ok r 0%N rest D) as (r1 & -> & A1); auto.
      { split; [rewrite D; cbn; lia|]. rewrite L. constructor; [lia|]. exact Lo. }
      rewrite index_of_none by assumption.
      destruct A1 as (D1 & L1 & E1). rewrite L in L1. cbn [map] in L1.
      destruct (drain_top0 r1 _ L1) as (Dd & Ld & Ed).
      eexists. split; [reflexivity|]. rewrite Dd, Ld, Ed, D1, D, E1. repeat split; auto.
    - destruct o as [x|]; cbn [msg_field obind fst snd].
      + destruct (mem i deps); [discriminate|].
        destruct (enc s f x) as [a|] eqn:Ex; cbn [obind]; [|discriminate].
        destruct (zip_opt _ fs' xs) as [b|] eqn:Exs; cbn [obind]; [|discriminate].
        intros [= <-]. destruct (Ho f a Ex) as [f1 H1].
        destruct (IH (fs_pre ++ [(i, f)]) fs' (l_pre ++ [Some x]) b) as [f2 H2].
        { now rewrite <- app_assoc. } { rewrite !app_length; cbn; lia. } { exact Exs. }
        exists (max f1 f2). intros fuel [|g] Hf Hg r rest others D L Lo Er; [cbn in Hg; lia|].
        cbn [smsg_loop app map length] in *. rewrite app_length in *.
        assert (Hi : ~ In i (map fst fs_pre)).
        { subst fs_all. rewrite map_app in Hnd. cbn in Hnd. apply NoDup_remove_2 in Hnd.
          intros Hin. apply Hnd. apply in_or_app. now left. }
        destruct (read_byte0_ok r i ((a ++ b) ++ 0%N :: rest) D) as (r1 & -> & A1); auto.
        { split; [rewrite D; cbn; lia|]. rewrite L. constructor; [lia|]. eapply Forall_impl; [|exact Lo]. cbn beta; intros; lia. }
        subst fs_all. rewrite index_of_app by assumption.
        assert (D1 : data (bs r1) = a ++ b ++ 0%N :: rest).
        { destruct A1 as (-> & _). rewrite D. cbn. now rewrite <- app_assoc. }
        assert (L1 : limits r1 = (length a + length b + 1) :: map (fun l => l - 1) others).
        { destruct A1 as (_ & -> & _). rewrite L. cbn [map]. f_equal. lia. }
        assert (E1 : err r1 = false) by (eapply adv_err; eauto).
        destruct (H1 fuel ltac:(lia) r1 (b ++ 0%N :: rest) D1) as (r2 & H2' & A2); auto.
        { rewrite L1. constructor; [lia|]. apply Forall_map. eapply Forall_impl; [|exact Lo]. cbn beta; intros; lia. }
        assert (E2 : err r2 = false) by (eapply adv_err; eauto).
        rewrite H2'. cbn [obindO]. rewrite E2, andb_false_r. rewrite <- Hlen, set_nth_app.
        destruct (H2 fuel g ltac:(lia) ltac:(lia) r2 rest (map (fun l => l - (1 + length a)) others)) as (r3 & H3 & D3 & L3 & E3); auto.
        { destruct A2 as (-> & _). rewrite D1. apply skipn_app_len. }
        { destruct A2 as (_ & -> & _). rewrite L1. cbn [map]. f_equal; [lia|]. rewrite map_map. apply map_ext; intros; lia. }
        { apply Forall_map. eapply Forall_impl; [|exact Lo]. cbn beta; intros; lia. }
        rewrite <- !app_assoc in H3. cbn [app] in H3.
        exists r3. split; [exact H3|].
        split; [exact D3|]. split; [|exact E3]. rewrite L3, map_map. apply map_ext; intros; lia.
      + destruct (zip_opt _ fs' xs) as [b|] eqn:Exs; cbn [obind]; [|discriminate].
        intros [= <-]. cbn [app].
        destruct (IH (fs_pre ++ [(i, f)]) fs' (l_pre ++ [None]) b) as [f2 H2].
        { now rewrite <- app_assoc. } { rewrite !app_length; cbn; lia. } { exact Exs. }
        exists f2. intros fuel g Hf Hg r rest others D L Lo Er.
        destruct (H2 fuel g Hf Hg r rest others D L Lo Er) as (r3 & H3 & R3).
        rewrite <- !app_assoc in H3. cbn [app map] in *. exists r3. split; [exact H3|exact R3].
  Qed.

  (* L6 *)
  Theorem stream_roundtrip : forall v, SRT v.
  Proof.
    unfold SRT, enc.
    induction v using value_ind'; intros t a; destruct t; cbn [enc_with]; try discriminate;
      try (intros E; exists 1; intros [|fuel] Hf r rest D L Er; [lia|]; cbn [sdec]; now eapply sdec_prim_ok; eauto).
    - (* array *)
      destruct (count_ok _) eqn:Ec; [|discriminate].
      destruct (cat_opt (enc_with s true t) l) as [body|] eqn:E; cbn [obind]; [|discriminate].
      intros [= <-]. destruct (selems_ok t l H body E) as [f0 H0].
      exists (S f0). intros [|fuel] Hf r rest D L Er; [lia|]. cbn [sdec].
      rewrite <- app_assoc in D. apply lim_app in L. rewrite le_enc_length in L.
      destruct (read_u32_ok r (N.of_nat (length l)) (body ++ rest)) as (r1 & -> & A1); auto.
      { unfold count_ok in Ec. now apply N.ltb_lt. } { split; [rewrite D, app_length, le_enc_length; lia|]. eapply lim_weaken; [|exact L]. lia. }
      cbn [count_within negb]. rewrite Nat2N.id.
      destruct (H0 fuel ltac:(lia) r1 rest) as (r2 & -> & A2).
      { destruct A1 as (-> & _). rewrite D. apply skipn_le4. }
      { eapply adv_limits; [exact A1|exact L]. }
      { eapply adv_err; eauto. }
      cbn [obindO]. exists r2. split; [reflexivity|]. rewrite app_length, le_enc_length. eapply adv_trans; eauto.
    - (* map *)
      destruct (count_ok _) eqn:Ec; [|discriminate].
      destruct (cat_opt _ l) as [body|] eqn:E; cbn [obind]; [|discriminate].
      intros [= <-]. destruct (sentries_ok k t l H body E) as [f0 H0].
      exists (S f0). intros [|fuel] Hf r rest D L Er; [lia|]. cbn [sdec].
      rewrite <- app_assoc in D. apply lim_app in L. rewrite le_enc_length in L.
      destruct (read_u32_ok r (N.of_nat (length l)) (body ++ rest)) as (r1 & -> & A1); auto.
      { unfold count_ok in Ec. now apply N.ltb_lt. } { split; [rewrite D, app_length, le_enc_length; lia|]. eapply lim_weaken; [|exact L]. lia. }
      cbn [count_within negb]. rewrite Nat2N.id.
      destruct (H0 fuel ltac:(lia) r1 rest) as (r2 & -> & A2).
      { destruct A1 as (-> & _). rewrite D. apply skipn_le4. }
      { eapply adv_limits; [exact A1|exact L]. }
      { eapply adv_err; eauto. }
      cbn [obindO]. exists r2. split; [reflexivity|]. rewrite app_length, le_enc_length. eapply adv_trans; eauto.
    - (* struct *)
      destruct (s n) as [[fs| |]|] eqn:Es; try discriminate.
      intros E. destruct (sfields_ok l H fs a E) as [f0 H0].
      exists (S f0). intros [|fuel] Hf r rest D L Er; [lia|]. cbn [sdec]. rewrite Es.
      destruct (H0 fuel ltac:(lia) r rest D L Er) as (r1 & -> & A1). cbn [obindO]. exists r1. split; [reflexivity|exact A1].
    - (* message *)
      destruct (s n) as [[|fs deps|]|] eqn:Es; try discriminate.
      destruct (zip_opt _ fs l) as [body|] eqn:E; cbn [obind]; [|discriminate].
      destruct (count_ok _) eqn:Ec; [|discriminate].
      intros [= <-].
      destruct (smsg_ok fs deps (Hwf _ _ _ Es) l H [] fs [] body eq_refl eq_refl E) as [f0 H0].
      exists (S (f0 + length body + 1)). intros [|fuel] Hf r rest D L Er; [lia|]. cbn [sdec]. rewrite Es.
      rewrite <- !app_assoc in D. cbn [app] in D.
      assert (Hlen : length (le_enc 4 (N.of_nat (length body + 1)) ++ body ++ [0%N]) = 4 + (length body + 1))
        by (rewrite !app_length, le_enc_length; reflexivity).
      assert (L4 : Forall (fun l => 4 + (length body + 1) <= l) (limits r)).
      { eapply Forall_impl; [|exact L]. cbn beta. intros x. rewrite Hlen. auto. }
      destruct (read_u32_ok r (N.of_nat (length body + 1)) (body ++ 0%N :: rest)) as (r1 & -> & A1); auto.
      { unfold count_ok in Ec. now apply N.ltb_lt. } { split; [rewrite D, app_length, le_enc_length; cbn [length]; rewrite app_length; cbn [length]; lia|]. eapply lim_weaken; [|exact L4]. lia. }
      assert (D1 : data (bs r1) = body ++ 0%N :: rest) by (destruct A1 as (-> & _); rewrite D; apply skipn_le4).
      rewrite clamp_id by (rewrite Nat2N.id; unfold avail; rewrite D1, app_length; cbn [length]; lia).
      rewrite Nat2N.id.
      destruct (H0 fuel fuel ltac:(lia) ltac:(lia) (push r1 (length body + 1)) rest (limits r1)) as (r2 & Hm & D2 & L2 & E2).
      { cbn [push bs data]. exact D1. }
      { reflexivity. }
      { eapply adv_limits; [exact A1|exact L4]. }
      { cbn [push err]. eapply adv_err; eauto. }
      cbn [app] in *. rewrite Hm. cbn [obindO]. exists r2. split; [reflexivity|]. rewrite Hlen. repeat split.
      + rewrite D2, D. rewrite <- (le_enc_length 4 (N.of_nat (length body + 1))) at 1.
        rewrite skipn_app_len', skipn_app_len'. reflexivity.
      + rewrite L2. destruct A1 as (_ & -> & _). rewrite map_map. apply map_ext; intros; lia.
      + rewrite E2. symmetry. exact Er.
    - (* union *)
      destruct (s n) as [[| |brs]|] eqn:Es; try discriminate.
      destruct (find _ brs) as [[j m]|] eqn:Ef; [|discriminate].
      destruct (enc_with s true (TRef m) v) as [a1|] eqn:Ex; cbn [obind]; [|discriminate].
      destruct (count_ok _) eqn:Ec; [|discriminate].
      intros [= <-]. destruct (IHv (TRef m) a1 Ex) as [f0 H0].
      exists (S f0). intros [|fuel] Hf r rest D L Er; [lia|]. cbn [sdec]. rewrite Es.
      rewrite <- !app_assoc in D. cbn [app] in D.
      assert (Hlen : length (le_enc 4 (N.of_nat (length a1)) ++ i :: a1) = 4 + (1 + length a1))
        by (rewrite !app_length, le_enc_length; reflexivity).
      assert (L4 : Forall (fun l => 4 + (1 + length a1) <= l) (limits r)).
      { eapply Forall_impl; [|exact L]. cbn beta. intros x. rewrite Hlen. auto. }
      destruct (read_u32_ok r (N.of_nat (length a1)) (i :: a1 ++ rest)) as (r1 & -> & A1); auto.
      { unfold count_ok in Ec. now apply N.ltb_lt. } { split; [rewrite D, app_length, le_enc_length; cbn; lia|]. eapply lim_weaken; [|exact L4]. lia. }
      assert (D1 : data (bs r1) = i :: a1 ++ rest) by (destruct A1 as (-> & _); rewrite D; apply skipn_le4).
      assert (E1 : err r1 = false) by (eapply adv_err; eauto).
      assert (Lo : Forall (fun l => 1 + length a1 <= l) (limits r1)) by (eapply adv_limits; [exact A1|exact L4]).
      rewrite clamp_id by (unfold avail; rewrite D1; cbn [length]; rewrite app_length; lia).
      replace (N.to_nat (N.of_nat (length a1) + 1)) with (length a1 + 1) by lia.
      destruct (read_byte0_ok (push r1 (length a1 + 1)) i (a1 ++ rest)) as (r2 & -> & A2); auto.
      { split; [cbn [push bs]; rewrite D1; cbn; lia|]. cbn [push limits]. constructor; [lia|]. eapply lim_weaken; [|exact Lo]. lia. }
      rewrite Ef.
      assert (D2 : data (bs r2) = a1 ++ rest) by (destruct A2 as (-> & _); cbn [push bs]; rewrite D1; reflexivity).
      assert (L2 : limits r2 = length a1 :: map (fun l => l - 1) (limits r1)).
      { destruct A2 as (_ & -> & _). cbn [push limits map]. f_equal. lia. }
      assert (E2 : err r2 = false) by (destruct A2 as (_ & _ & ->); exact E1).
      destruct (H0 fuel ltac:(lia) r2 rest D2) as (r3 & -> & A3); auto.
      { rewrite L2. constructor; [lia|]. apply Forall_map. eapply Forall_impl; [|exact Lo]. cbn beta; intros; lia. }
      cbn [obindO].
      assert (E3 : err r3 = false) by (eapply adv_err; eauto). rewrite E3.
      assert (L3 : limits r3 = 0 :: map (fun l => l - (1 + length a1)) (limits r1)).
      { destruct A3 as (_ & -> & _). rewrite L2. cbn [map]. f_equal; [lia|]. rewrite map_map. apply map_ext; intros; lia. }
      destruct (drain_top0 r3 _ L3) as (Dd & Ld & Ed).
      eexists. split; [reflexivity|]. rewrite Hlen. repeat split.
      + rewrite Dd. destruct A3 as (-> & _). rewrite D2, skipn_app_len, D.
        rewrite <- (le_enc_length 4 (N.of_nat (length a1))) at 1. rewrite skipn_app_len'.
        cbn [plus skipn]. now rewrite skipn_app_len.
      + rewrite Ld. destruct A1 as (_ & -> & _). rewrite map_map. apply map_ext; intros; lia.
      + rewrite Ed, E3. symmetry. exact Er.
  Qed.
End SRT.
