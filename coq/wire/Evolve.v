(* Schema evolution (C04): the reader's schema s1 and the writer's schema s2, where s2 extends messages of s1 with fields the
   reader does not know, and where the reader may mark as deprecated fields the writer still sends (the decoders ignore the
   deprecated marks, so that case needs no special treatment).  [restrict] is the value the old reader should see. *)
Require Export Bebop.wire.Wire.

Definition msg_wf' (fs : list (N * ty)) := NoDup (map fst fs) /\ ~ In 0%N (map fst fs).

(* s2 extends s1: same structs and unions; every message keeps its fields as a prefix and appends fields whose indices the old
   version does not know (fresh, non-zero); the deprecated marks may differ in any way *)
Definition extends (s1 s2 : schema) : Prop :=
  forall n, match s1 n, s2 n with
            | Some (DStruct f1), Some (DStruct f2) => f1 = f2
            | Some (DUnion b1), Some (DUnion b2) => b1 = b2
            | Some (DMsg f1 _), Some (DMsg f2 _) => exists extra, f2 = f1 ++ extra /\ msg_wf' f2
            | None, None => True
            | _, _ => False
            end.

Definition zip_map {A} (f : A -> value -> value) :=
  fix go (fs : list A) (l : list value) {struct l} : list value :=
    match fs, l with f0 :: fs', x :: xs => f f0 x :: go fs' xs | _, _ => [] end.
Definition zip_map_opt {A} (f : A -> value -> value) :=
  fix go (fs : list A) (l : list (option value)) {struct l} : list (option value) :=
    match fs, l with
    | f0 :: fs', Some x :: xs => Some (f f0 x) :: go fs' xs
    | f0 :: fs', None :: xs => None :: go fs' xs
    | _, _ => []
    end.

Section Restrict.
  Variable s1 : schema.
  Fixpoint restrict (t : ty) (v : value) {struct v} : value :=
    match t, v with
    | TArr t', VArr l => VArr (map (restrict t') l)
    | TMap k t', VMap l => VMap (map (fun kv : value * value => (fst kv, restrict t' (snd kv))) l)
    | TRef n, VStruct l =>
        match s1 n with
        | Some (DStruct fs) => VStruct (zip_map restrict fs l)
        | _ => v
        end
    | TRef n, VMsg l =>
        match s1 n with
        | Some (DMsg fs _) => VMsg (zip_map_opt (fun f : N * ty => restrict (snd f)) fs l)
        | _ => v
        end
    | TRef n, VUnion i x =>
        match s1 n with
        | Some (DUnion bs) => match find (fun b => N.eqb (fst b) i) bs with
                              | Some (_, m) => VUnion i (restrict (TRef m) x)
                              | None => v
                              end
        | _ => v
        end
    | _, _ => v
    end.
End Restrict.
