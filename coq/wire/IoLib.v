(* Combinator library targeted by translator T1 (go/cmd/t1): every function of iohelp/iohelp.go is re-generated on every
   run as one descriptor built from the constructors below (coq/gen/IohelpGen.v).  This file gives the descriptors their
   meaning: the byte-slice layer over [bytes], the stream layer over an abstract ErrorReader / ErrorWriter.
   No proofs here (wire/IoLibFacts.v has them), so the model still runs when a proof breaks. *)
Require Export Bebop.common.LE.

(* Outcome of a slice operation.  [Unsafe] = an unsafe.Pointer access beyond the slice's length (no Go panic: silent
   out-of-bounds memory access).  [Panic] = index/slice out of range. *)
Inductive out (A : Type) := Ok (a : A) | Err | Panic | Unsafe.
Arguments Ok {A}. Arguments Err {A}. Arguments Panic {A}. Arguments Unsafe {A}.

Inductive date := DZero | DUnix (nanos : Z).

(* what a Go value of a primitive wire type is, for the model *)
Inductive rv := RZ (z : Z) | RB (b : bool) | RBytes (l : bytes) | RDate (d : date).

(* ---------- descriptors: exactly what the translator emits ---------- *)
Inductive slice_fn :=
| sl_load (probe width : nat) (signed : bool)   (* bounds probe buf[probe], then an unsafe load of [width] bytes at offset 0 *)
| sl_store (probe width : nat)                  (* bounds probe b[probe], then an unsafe store of [width] bytes at offset 0 *)
| sl_index0 | sl_bool0 | sl_put0 | sl_putbool0
| sl_perm_read (idx : list nat)                 (* [16]byte{buf[i0], buf[i1], ...} *)
| sl_perm_write (probe : nat) (idx : list nat)  (* probe, then b[k] = guid[idx k] *)
| sl_string_checked (c1 c2 lo hi : nat) (rd : slice_fn)  (* len<c1 => err; sz := rd; len < sz+c2 => err; buf[lo : hi+sz] *)
| sl_string_unchecked (lo hi : nat) (rd : slice_fn)
| sl_date (mult : nat) (rd : slice_fn)          (* tm := rd; tm *= mult; tm == 0 => zero time, else time.Unix(0, tm) *)
| sl_float (f : slice_fn).                      (* math.FloatNNfrombits / FloatNNbits around an integer function: bit pattern *)

Inductive onerr := ZeroOnError | StaleOnError.
Inductive stream_fn :=
| st_read (n : nat) (f : slice_fn)              (* io.ReadFull(r, r.buffer[:n]); f(r.buffer) *)
| st_read_fresh (n : nat) (f : slice_fn)        (* data := make([]byte, n); r.Read(data); f(data) *)
| st_read_byte (m : onerr)
| st_read_bool
| st_read_string (rd : stream_fn)               (* data := make([]byte, rd(r)); r.Read(data); string(data) *)
| st_write (n : nat) (f : slice_fn)             (* f(w.buffer, v); w.Write(w.buffer[:n]) *)
| st_write_byte | st_write_bool
| st_write_perm (idx : list nat)
| st_float (f : stream_fn).
Inductive misc :=
| er_read_full_latching                         (* n, err = io.ReadFull(er.Reader, b); err => er.Err = err *)
| er_read_full_sticky_zeroing                   (* er.Err set => clear(b), fail; else as above and clear(b) on failure *)
| er_drain_ignoring_errors
| ew_write_latching | ew_write_if_clear
| new_er_reusing (n : nat) | new_ew_reusing (n : nat).

(* ---------- integer helpers ---------- *)
Definition wrap64 (z : Z) : Z := to_signed 8 (of_signed 8 z).
Definition zeros (n : nat) : bytes := repeat 0%N n.

(* ---------- the slice layer ---------- *)
Definition raw_load (p w : nat) (buf : bytes) : out N :=
  if p <? length buf then (if w <=? length buf then Ok (le_dec (firstn w buf)) else Unsafe) else Panic.

(* the unsigned integer a reader returns, before any sign interpretation; only for the integer readers *)
Definition load_n (f : slice_fn) (buf : bytes) : out N :=
  match f with
  | sl_load p w _ => raw_load p w buf
  | sl_index0 => match buf with b :: _ => Ok b | [] => Panic end
  | _ => Panic
  end.

Definition interp (f : slice_fn) (n : N) : Z :=
  match f with sl_load _ w true => to_signed w n | _ => Z.of_N n end.

Definition obind_out {A B} (o : out A) (k : A -> out B) : out B :=
  match o with Ok a => k a | Err => Err | Panic => Panic | Unsafe => Unsafe end.

Fixpoint sl_read (f : slice_fn) (buf : bytes) : out rv :=
  match f with
  | sl_load _ _ _ | sl_index0 => obind_out (load_n f buf) (fun n => Ok (RZ (interp f n)))
  | sl_bool0 => match buf with b :: _ => Ok (RB (N.eqb b 1)) | [] => Panic end
  | sl_perm_read idx =>
      if forallb (fun i => i <? length buf) idx then Ok (RBytes (map (fun i => nth i buf 0%N) idx)) else Panic
  | sl_string_checked c1 c2 lo hi rd =>
      if length buf <? c1 then Err else
      obind_out (load_n rd buf) (fun szn =>
        (* the comparisons are made in N first so that the model runs on hostile 32-bit counts *)
        if (N.of_nat (length buf) <? szn + N.of_nat c2)%N then Err else
        if (N.of_nat (length buf) <? szn + N.of_nat hi)%N then Panic else
        let sz := N.to_nat szn in
        if (lo <=? hi + sz) && (hi + sz <=? length buf) then Ok (RBytes (firstn (hi + sz - lo) (skipn lo buf))) else Panic)
  | sl_string_unchecked lo hi rd =>
      obind_out (load_n rd buf) (fun szn =>
        if (N.of_nat (length buf) <? szn + N.of_nat hi)%N then Panic else
        let sz := N.to_nat szn in
        if (lo <=? hi + sz) && (hi + sz <=? length buf) then Ok (RBytes (firstn (hi + sz - lo) (skipn lo buf))) else Panic)
  | sl_date mult rd =>
      obind_out (load_n rd buf) (fun n =>
        let tm := wrap64 (interp rd n * Z.of_nat mult) in
        Ok (RDate (if (tm =? 0)%Z then DZero else DUnix tm)))
  | sl_float g => sl_read g buf
  | _ => Panic
  end.

Definition raw_store (p w : nat) (buf : bytes) (n : N) : out bytes :=
  if p <? length buf then (if w <=? length buf then Ok (le_enc w n ++ skipn w buf) else Unsafe) else Panic.

Fixpoint sl_write (f : slice_fn) (buf : bytes) (v : rv) : out bytes :=
  match f, v with
  | sl_store p w, RZ z => raw_store p w buf (of_signed w z)
  | sl_put0, RZ z => match buf with _ :: r => Ok (of_signed 1 z :: r) | [] => Panic end
  | sl_putbool0, RB b => match buf with _ :: r => Ok ((if b then 1%N else 0%N) :: r) | [] => Panic end
  | sl_perm_write p idx, RBytes g =>
      if p <? length buf then
        (if length idx <=? length buf then Ok (map (fun i => nth i g 0%N) idx ++ skipn (length idx) buf) else Panic)
      else Panic
  | sl_float g, _ => sl_write g buf v
  | _, _ => Panic
  end.

(* width of the wire representation a function reads or writes (0 = not a fixed-width function) *)
Fixpoint width_of (f : slice_fn) : nat :=
  match f with
  | sl_load _ w _ | sl_store _ w => w
  | sl_index0 | sl_bool0 | sl_put0 | sl_putbool0 => 1
  | sl_perm_read idx | sl_perm_write _ idx => length idx
  | sl_date _ rd => width_of rd
  | sl_float g => width_of g
  | _ => 0
  end.

(* ---------- the stream layer: ErrorReader ---------- *)
(* [rest] is what the underlying io.Reader can still deliver before EOF or its first error; io.ReadFull makes the result of a
   read independent of how the reader fragments it (wire/Reader.v proves that for the full model with chunk schedules and
   io.LimitedReader stacks; this is the interface the iohelp helpers see). *)
Record rdr := { rest : bytes; rerr : bool; scratch : bytes }.

(* er.Read(b): new contents of b given its old contents [old] (length = bytes wanted), whether the call failed, new reader *)
Definition er_read (mode : misc) (r : rdr) (old : bytes) : bytes * bool * rdr :=
  let n := length old in
  match mode with
  | er_read_full_sticky_zeroing =>
      if rerr r then (zeros n, true, r)
      else if n <=? length (rest r) then (firstn n (rest r), false, {| rest := skipn n (rest r); rerr := false; scratch := scratch r |})
      else (zeros n, true, {| rest := []; rerr := true; scratch := scratch r |})
  | _ => (* er_read_full_latching: partial data stays in front of the old contents, later reads keep going *)
      if n <=? length (rest r) then (firstn n (rest r), false, {| rest := skipn n (rest r); rerr := rerr r; scratch := scratch r |})
      else (rest r ++ skipn (length (rest r)) old, true, {| rest := []; rerr := true; scratch := scratch r |})
  end.

(* io.ReadFull(r, r.buffer[:n]) *)
Definition scratch_fill (mode : misc) (r : rdr) (n : nat) : bool * rdr :=
  let '(b, failed, r') := er_read mode r (firstn n (scratch r)) in
  (failed, {| rest := rest r'; rerr := rerr r'; scratch := b ++ skipn n (scratch r) |}).

Fixpoint st_read_sem (mode : misc) (f : stream_fn) (r : rdr) : out rv * rdr :=
  match f with
  | st_read n g => let '(_, r') := scratch_fill mode r n in (sl_read g (scratch r'), r')
  | st_read_fresh n g => let '(b, _, r') := er_read mode r (zeros n) in (sl_read g b, r')
  | st_read_byte m =>
      let '(failed, r') := scratch_fill mode r 1 in
      match m with
      | ZeroOnError => if failed then (Ok (RZ 0), r') else (sl_read sl_index0 (scratch r'), r')
      | StaleOnError => (sl_read sl_index0 (scratch r'), r')
      end
  | st_read_bool => let '(_, r') := scratch_fill mode r 1 in (sl_read sl_bool0 (scratch r'), r')
  | st_read_string rd =>
      let '(n, r1) := st_read_sem mode rd r in
      match n with
      | Ok (RZ z) => let '(b, _, r2) := er_read mode r1 (zeros (Z.to_nat z)) in (Ok (RBytes b), r2)
      | _ => (Panic, r1)
      end
  | st_float g => st_read_sem mode g r
  | _ => (Panic, r)
  end.

(* ---------- the stream layer: ErrorWriter ---------- *)
(* the underlying io.Writer fails at the call whose index is in [wfail] (any fault pattern) *)
Record wtr := { calls : list bytes; wfail : nat -> bool; werr : bool; wscratch : bytes }.
Definition ew_write (w : wtr) (b : bytes) : wtr :=
  let k := length (calls w) in
  {| calls := calls w ++ [b]; wfail := wfail w; werr := werr w || wfail w k; wscratch := wscratch w |}.

Fixpoint st_write_sem (f : stream_fn) (w : wtr) (v : rv) : out wtr :=
  match f with
  | st_write n g =>
      obind_out (sl_write g (wscratch w) v) (fun sc =>
        Ok (ew_write {| calls := calls w; wfail := wfail w; werr := werr w; wscratch := sc |} (firstn n sc)))
  | st_write_byte => match v with RZ z => Ok (ew_write w [of_signed 1 z]) | _ => Panic end
  | st_write_bool => match v with RB b => Ok (ew_write w [if b then 1%N else 0%N]) | _ => Panic end
  | st_write_perm idx => match v with RBytes g => Ok (ew_write w (map (fun i => nth i g 0%N) idx)) | _ => Panic end
  | st_float g => st_write_sem g w v
  | _ => Panic
  end.

(* the .NET Guid field order on the wire *)
Definition dotnet_guid : list nat := [3; 2; 1; 0; 5; 4; 7; 6; 8; 9; 10; 11; 12; 13; 14; 15].
