(* The generated encoders as executable models: MarshalBebopTo threading (buf, at) through an arbitrary prior buffer, and
   EncodeBebop through the latching ErrorWriter under an arbitrary fault pattern over Write-call indices.  No proofs here.
   Both skip deprecated message fields (the generated code does). *)
Require Export Bebop.wire.Wire.

(* ---------- MarshalBebopTo ---------- *)
(* None = index out of range (the generated code panics) *)
Definition write_at (buf : bytes) (at_ : nat) (b : bytes) : option bytes :=
  if at_ + length b <=? length buf then Some (firstn at_ buf ++ b ++ skipn (at_ + length b) buf) else None.

Definition W := bytes -> nat -> option (bytes * nat).
Definition wr (b : bytes) : W := fun buf at_ => b1 <- write_at buf at_ b ;; Some (b1, at_ + length b).
Definition retW : W := fun buf at_ => Some (buf, at_).
Definition failW : W := fun _ _ => None.
Definition seqW (w1 w2 : W) : W := fun buf at_ => r <- w1 buf at_ ;; w2 (fst r) (snd r).
(* (x).MarshalBebopTo(buf[at:]); at += x.Size()  -- the child's return value is ignored *)
Definition nested (w : W) (sz : nat) : W := fun buf at_ => r <- w buf at_ ;; Some (fst r, at_ + sz).

Definition thread {A} (f : A -> W) := fix go (l : list A) : W := match l with [] => retW | x :: xs => seqW (f x) (go xs) end.
Definition zipthread {A B} (f : A -> B -> W) :=
  fix go (fs : list A) (l : list B) {struct l} : W :=
    match fs, l with [], [] => retW | t :: fs', x :: xs => seqW (f t x) (go fs' xs) | _, _ => failW end.

Section MTo.
  Variable s : schema.
  Variable writes_terminator : bool.        (* gen/GenConsts.v: read from gen_message.go by translator T3 *)

  Definition mfield (deps : list N) (f : ty -> value -> W) (it : N * ty) (o : option value) : W :=
    match o with
    | None => retW
    | Some x => if mem (fst it) deps then retW else seqW (wr [fst it]) (f (snd it) x)
    end.

  Fixpoint mto (t : ty) (v : value) {struct v} : W :=
    match t, v with
    | TPrim p, _ => match enc_prim p v with Some b => wr b | None => failW end
    | TArr t', VArr l => if count_ok (length l) then seqW (wr (le_enc 4 (N.of_nat (length l)))) (thread (mto t') l) else failW
    | TMap k t', VMap l =>
        if count_ok (length l) then
          seqW (wr (le_enc 4 (N.of_nat (length l))))
               (thread (fun kv : value * value => seqW (match enc_prim k (fst kv) with Some b => wr b | None => failW end) (mto t' (snd kv))) l)
        else failW
    | TRef n, VStruct l =>
        match s n with Some (DStruct fs) => nested (zipthread mto fs l) (size s (TRef n) v) | _ => failW end
    | TRef n, VMsg l =>
        match s n with
        | Some (DMsg fs deps) =>
            if count_ok (size s (TRef n) v - 4) then
              nested (seqW (wr (le_enc 4 (N.of_nat (size s (TRef n) v - 4))))
                           (seqW (zipthread (mfield deps mto) fs l) (if writes_terminator then wr [0%N] else retW)))
                     (size s (TRef n) v)
            else failW
        | _ => failW
        end
    | TRef n, VUnion i x =>
        match s n with
        | Some (DUnion bs) =>
            match find (fun b => N.eqb (fst b) i) bs with
            | Some (_, m) =>
                if count_ok (size s (TRef n) v - 5) then
                  nested (seqW (wr (le_enc 4 (N.of_nat (size s (TRef n) v - 5)))) (seqW (wr [i]) (mto (TRef m) x))) (size s (TRef n) v)
                else failW
            | None => failW
            end
        | _ => failW
        end
    | _, _ => failW
    end.
End MTo.

(* ---------- EncodeBebop ---------- *)
Record ew := { out : bytes; calls : nat; werr : bool }.
Section Enc.
  Variable fault : nat -> bool.             (* does the underlying writer fail on its k-th call? (a failed call writes nothing) *)

  (* ErrorWriter.Write: always calls the underlying writer; latches the error *)
  Definition ew_write (w : ew) (b : bytes) : ew :=
    if fault (calls w) then {| out := out w; calls := S (calls w); werr := true |}
    else {| out := out w ++ b; calls := S (calls w); werr := werr w |}.

  (* an encoder step: new writer state, and whether the enclosing generated METHODS have returned (a nested record's
     EncodeBebop came back with an error: `if err != nil { return err }` at every level above) *)
  Definition E := ew -> ew * bool.
  Definition ewr (b : bytes) : E := fun w => (ew_write w b, false).
  Definition eid : E := fun w => (w, false).
  Definition eseq (e1 e2 : E) : E := fun w => let '(w1, stop) := e1 w in if stop then (w1, true) else e2 w1.
  Definition ethread {A} (f : A -> E) := fix go (l : list A) : E := match l with [] => eid | x :: xs => eseq (f x) (go xs) end.
  Definition ezip {A B} (f : A -> B -> E) :=
    fix go (fs : list A) (l : list B) {struct l} : E :=
      match fs, l with t :: fs', x :: xs => eseq (f t x) (go fs' xs) | _, _ => eid end.
  (* a value of record type: err = x.EncodeBebop(w); if err != nil { return err } *)
  Definition erecord (e : E) : E := fun w => let '(w1, _) := e w in (w1, werr w1).

  Variable s : schema.

  Definition eprim (p : prim) (v : value) : E :=
    match p, v with
    | PString, VS str => eseq (ewr (le_enc 4 (N.of_nat (length str)))) (ewr str)
    | _, _ => match enc_prim p v with Some b => ewr b | None => eid end
    end.

  Definition emfield (deps : list N) (f : ty -> value -> E) (it : N * ty) (o : option value) : E :=
    match o with
    | None => eid
    | Some x => if mem (fst it) deps then eid else eseq (ewr [fst it]) (f (snd it) x)
    end.

  Definition byte_of (v : value) : byte := match v with VZ z => Z.to_N z | _ => 0%N end.

  Fixpoint senc (t : ty) (v : value) {struct v} : E :=
    match t, v with
    | TPrim p, _ => eprim p v
    | TArr t', VArr l =>
        match t' with
        | TPrim PByte => eseq (ewr (le_enc 4 (N.of_nat (length l)))) (ewr (map byte_of l))      (* w.Write(arr): one call *)
        | _ => eseq (ewr (le_enc 4 (N.of_nat (length l)))) (ethread (senc t') l)
        end
    | TMap k t', VMap l =>
        eseq (ewr (le_enc 4 (N.of_nat (length l)))) (ethread (fun kv : value * value => eseq (eprim k (fst kv)) (senc t' (snd kv))) l)
    | TRef n, VStruct l =>
        match s n with
        | Some (DStruct []) => eid                              (* an empty struct's EncodeBebop is `return nil` *)
        | Some (DStruct fs) => erecord (ezip senc fs l)
        | _ => eid
        end
    | TRef n, VMsg l =>
        match s n with
        | Some (DMsg fs deps) =>
            erecord (eseq (ewr (le_enc 4 (N.of_nat (size s (TRef n) v - 4)))) (eseq (ezip (emfield deps senc) fs l) (ewr [0%N])))
        | _ => eid
        end
    | TRef n, VUnion i x =>
        match s n with
        | Some (DUnion bs) =>
            match find (fun b => N.eqb (fst b) i) bs with
            | Some (_, m) => erecord (eseq (ewr (le_enc 4 (N.of_nat (size s (TRef n) v - 5)))) (eseq (ewr [i]) (senc (TRef m) x)))
            | None => erecord (ewr (le_enc 4 (N.of_nat (size s (TRef n) v - 5))))
            end
        | _ => eid
        end
    | _, _ => eid
    end.
End Enc.

Definition nofault : nat -> bool := fun _ => false.
Definition ew0 : ew := {| out := []; calls := 0; werr := false |}.
