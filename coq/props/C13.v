(* C13: schemas that cannot work are rejected; the recursion analysis always terminates.
   Two models: front/Valid.v is the executable port of Validate whose verdict the correspondence check (lib/front.py,
   check_c13) compares with the implementation on every injected error; sys/Fix.v is the abstract model of Validate's
   struct-usage loop (gen.go: "for changed { for name := range usage { for used := range usage[name] { ... } } }"), with the
   order in which Go ranges over its maps left ARBITRARY (an oracle, possibly different in every pass).  Proved about it: *)
Require Import Bebop.front.Tok Bebop.front.Parse Bebop.front.Valid Bebop.front.ValidFacts.
Require Import Bebop.sys.Fix.
From Coq Require Import List.
Import ListNotations.

(* whatever the iteration orders, (1) when the loop stops the usage sets are EXACTLY the transitive closure of the direct
   struct-containment relation, so "a struct reaches itself" is decided exactly: every necessarily infinite struct is
   rejected and nothing else is; (2) the loop stops within |keys| * |names| productive passes *)
Definition C13_partial_statement : Prop :=
  forall (keys V : list name) (u0 : usage) (outer : nat -> list name) (ord : nat -> name -> list name),
    (forall f, incl (outer f) keys /\ incl keys (outer f)) ->
    (forall f a, incl (ord f a) keys /\ incl keys (ord f a)) ->
    (forall fuel u u', Inv keys V u0 u -> iterate fuel u outer ord = Some u' ->
       forall a x, In a keys -> In x (u' a) <-> clo keys u0 a x) /\
    (forall fuel u, Inv keys V u0 u -> length keys * length V < fuel + total keys u -> iterate fuel u outer ord <> None).

Theorem C13_partial : C13_partial_statement.
Proof.
  intros keys V u0 outer ord Ho Hd. split.
  - exact (iterate_exact keys V u0 outer ord Ho Hd).
  - exact (iterate_terminates keys V u0 outer ord Ho Hd).
Qed.

Print Assumptions C13_partial.

(* The executable validator model (front/Valid.v - the one the correspondence check compares with File.Validate on every
   injected error) is SOUND for every clause of the property that does not involve recursion: whatever File it accepts has
   no duplicate const / definition / union-branch / field / enum-option name, no duplicate enum value, no duplicate non-zero
   opcode, no definition or branch named like a primitive, and every struct and message field type names defined types
   only, at every depth of array and map nesting (sem_ok, front/ValidFacts.v).  Not covered here: types inside union
   branches (the known finding), index and literal-range clauses (decided by the parser model), and the recursion clause,
   which C13_partial settles on the abstract loop. *)
Definition C13_sound_statement : Prop := forall f, validate f = true -> sem_ok f.
Theorem C13_sound : C13_sound_statement.
Proof. exact validate_sound. Qed.
Print Assumptions C13_sound.
