(* C13: schemas that cannot work are rejected; the recursion analysis always terminates.
   Two models: front/Valid.v is the executable port of Validate whose verdict the correspondence check (lib/front.py,
   check_c13) compares with the implementation on every injected error; sys/Fix.v is the abstract model of Validate's
   struct-usage loop (gen.go: "for changed { for name := range usage { for used := range usage[name] { ... } } }"), with the
   order in which Go ranges over its maps left ARBITRARY (an oracle, possibly different in every pass).  Proved about it: *)
Require Import Bebop.front.Tok Bebop.front.Parse Bebop.front.Valid Bebop.front.ValidFacts Bebop.front.ValidRec.
Require Import Bebop.sys.Fix.
From Coq Require Import Bool.
From Coq Require Import List NArith.
Import ListNotations.

(* whatever the iteration orders, (1) when the loop stops the usage sets are EXACTLY the transitive closure of the direct
   struct-containment relation, so "a struct reaches itself" is decided exactly: every necessarily infinite struct is
   rejected and nothing else is; (2) the loop stops within |keys| * |names| productive passes *)
Definition C13_partial_statement : Prop :=
  forall (name : Type) (eqb : name -> name -> bool) (eqb_spec : forall a b, reflect (a = b) (eqb a b))
         (keys V : list name) (u0 : usage name) (outer : nat -> list name) (ord : nat -> name -> list name),
    (forall f, incl (outer f) keys /\ incl keys (outer f)) ->
    (forall f a, incl (ord f a) keys /\ incl keys (ord f a)) ->
    (forall fuel u u', Inv name keys V u0 u -> iterate name eqb fuel u outer ord = Some u' ->
       forall a x, In a keys -> In x (u' a) <-> clo name keys u0 a x) /\
    (forall fuel u, Inv name keys V u0 u -> length keys * length V < fuel + total name keys u -> iterate name eqb fuel u outer ord <> None).
Theorem C13_partial : C13_partial_statement.
Proof.
  intros name eqb eqb_spec keys V u0 outer ord Ho Hd. split.
  - exact (iterate_exact name eqb eqb_spec keys V u0 outer ord Ho Hd).
  - exact (iterate_terminates name eqb eqb_spec keys V u0 outer ord Ho Hd).
Qed.
Print Assumptions C13_partial.

(* The executable validator model (front/Valid.v - the one the correspondence check compares with File.Validate on every
   injected error) is SOUND for every clause of the property that does not involve recursion: whatever File it accepts has
   no duplicate const / definition / union-branch / field / enum-option name, no duplicate enum value, no duplicate non-zero
   opcode, no definition or branch named like a primitive, and every struct and message field type names defined types
   only, at every depth of array and map nesting (sem_ok, front/ValidFacts.v).  Not covered here: types inside union
   branches (the known finding), index and literal-range clauses (decided by the parser model), and the recursion clause,
   which C13_partial settles on the abstract loop. *)
Definition C13_sound_statement : Prop := forall f, validate f = true -> sem_ok f.
Theorem C13_sound : C13_sound_statement.
Proof. exact validate_sound. Qed.
Print Assumptions C13_sound.

(* The recursion clause on the EXECUTABLE validator model (front/ValidRec.v): Valid.v's loop - byte-string names, association
   lists, one particular iteration order, a fuel bound computed from the schema - refines the abstract loop above, the bound
   is enough for it to stop by itself, and therefore: the validator model accepts a File EXACTLY when every other clause
   holds (validate_norec, to which C13_sound applies) and no struct reaches itself through the types its fields mention,
   transitively through structs (clo over `direct`, which direct_spec / dedup_spec identify with the field types of the
   struct of that name).  Every necessarily-infinite struct is rejected; recursion through messages or unions (whose names
   are not struct keys) is accepted; the analysis terminates. *)
Definition C13_recursion_statement : Prop :=
  (forall f, validate f = true <->
     validate_norec f = true /\ forall a, In a (snames (structs f)) -> ~ clo bytes (snames (structs f)) (direct (structs f)) a a) /\
  (forall sts s, NoDup (snames sts) -> In s sts ->
     forall x, In x (direct sts (s_name s)) <-> exists fd, In fd (s_fields s) /\ In x (used_types (f_type fd))).
Theorem C13_recursion : C13_recursion_statement.
Proof.
  split; [exact validate_rec|]. intros sts s Hn Hs x. rewrite (direct_spec sts s Hn Hs). unfold struct_used.
  rewrite (proj2 (dedup_spec _) x), in_flat_map. reflexivity.
Qed.
(* not vacuous: a struct cycle behind a non-cyclic struct is rejected, the same shape through a message is accepted *)
Example C13_recursion_witness :
  let fld t := {| f_type := FSimple t; f_name := [120%N]; f_comment := []; f_tags := []; f_depmsg := []; f_dep := false |} in
  let st n t := {| s_name := [n]; s_comment := []; s_fields := [fld [t]]; s_opcode := 0; s_readonly := false |} in
  let f0 := {| structs := []; messages := []; enums := []; unions := []; consts := []; imports := []; gopackage := [] |} in
  let bad := {| structs := [st 65%N 66%N; st 66%N 67%N; st 67%N 66%N]; messages := messages f0; enums := []; unions := []; consts := []; imports := []; gopackage := [] |} in
  let good := {| structs := [st 65%N 66%N; st 66%N 77%N];
                 messages := [{| m_name := [77%N]; m_comment := []; m_fields := [(1%N, fld [66%N])]; m_opcode := 0 |}];
                 enums := []; unions := []; consts := []; imports := []; gopackage := [] |} in
  validate bad = false /\ validate_norec bad = true /\ validate good = true.
Proof. vm_compute. repeat split. Qed.
Print Assumptions C13_recursion.

(* Two more clauses - "duplicate message or union indices, a message index of zero" - are settled by ReadFile itself, and
   for EVERY input (front/ParseWf.v, a postcondition carried through the parser's monadic code): whatever File the parser
   model returns has, in every message (top-level or a union branch), distinct field indices none of which is 0, and in every
   union distinct branch indices. *)
Require Import Bebop.front.ParseWf.
Definition C13_indices_statement : Prop :=
  forall input fails f s, read_file input fails = POk f s ->
    (forall m, In m (messages f) -> NoDup (map fst (m_fields m)) /\ ~ In 0%N (map fst (m_fields m))) /\
    (forall u, In u (unions f) -> NoDup (map fst (un_fields u)) /\
       forall p m, In p (un_fields u) -> u_msg (snd p) = Some m -> NoDup (map fst (m_fields m)) /\ ~ In 0%N (map fst (m_fields m))).
Theorem C13_indices : C13_indices_statement.
Proof.
  intros input fails f s E. destruct (read_file_wf input fails f s E) as [Hm Hu]. rewrite Forall_forall in Hm, Hu. split.
  - intros m Hin. exact (Hm m Hin).
  - intros u Hin. destruct (Hu u Hin) as [Hn Hb]. split; [exact Hn|]. intros p m Hp Em. rewrite Forall_forall in Hb.
    specialize (Hb p Hp). unfold ubranch_wf in Hb. rewrite Em in Hb. exact Hb.
Qed.
(* not vacuous: `message M { 1 -> int32 a; 2 -> int32 b; }` is accepted; with the second index 1, or the first 0, it is not *)
Example C13_indices_witness :
  let txt i j := [109;101;115;115;97;103;101;32;77;32;123;10; i;32;45;62;32;105;110;116;51;50;32;97;59;10; j;32;45;62;32;105;110;116;51;50;32;98;59;10; 125;10]%N in
  (exists f s, read_file (txt 49 50)%N false = POk f s) /\ read_file (txt 49 49)%N false = PErr /\ read_file (txt 48 50)%N false = PErr.
Proof. cbv zeta. split; [eexists; eexists; vm_compute; reflexivity|split; vm_compute; reflexivity]. Qed.
Print Assumptions C13_indices.

(* "an enum value outside its base type": also settled by ReadFile itself, for EVERY input (front/ParseEnumWf.v) - every member
   of every enum of a File the parser model returns holds a value in the range of the enum's base type (uint32 when none is
   declared): literals are range-checked at that width, and a [flags] expression is evaluated with wrap-around at that width
   (eval_range), so what is stored is in range by construction. *)
Require Import Bebop.front.ParseEnumWf.
From Coq Require Import ZArith.
Definition C13_enum_range_statement : Prop :=
  forall input fails f s, read_file input fails = POk f s ->
    forall e o, In e (enums f) -> In o (e_opts e) ->
      if e_unsigned e then (o_uvalue o < 2 ^ ebits e)%N
      else (- 2 ^ (Z.of_N (ebits e) - 1) <= o_value o < 2 ^ (Z.of_N (ebits e) - 1))%Z.
Theorem C13_enum_range : C13_enum_range_statement.
Proof.
  intros input fails f s E e o He Ho. pose proof (read_file_enums input fails f s E) as H. rewrite Forall_forall in H.
  specialize (H e He). unfold enum_wf in H. rewrite Forall_forall in H. exact (H o Ho).
Qed.
(* not vacuous: `enum E : uint8 { A = 255; }` is accepted, with 256 it is not *)
Example C13_enum_range_witness :
  let txt (a b c : N) := [101;110;117;109;32;69;32;58;32;117;105;110;116;56;32;123;10; 65;32;61;32; a; b; c; 59;10; 125;10]%N in
  (exists f s, read_file (txt 50 53 53)%N false = POk f s) /\ read_file (txt 50 53 54)%N false = PErr.
Proof. cbv zeta. split; [eexists; eexists; vm_compute; reflexivity|vm_compute; reflexivity]. Qed.
Print Assumptions C13_enum_range.

(* All of it in one statement, for EVERY input text: if the parser model returns a File and the validator model accepts it,
   then none of the listed semantic errors is present - no duplicate const / definition / union-branch / field / enum-option
   name, no duplicate enum value, no duplicate non-zero opcode, nothing named like a primitive, every struct and message field
   type defined at every depth (sem_ok); message indices distinct and non-zero, union indices distinct; every enum value
   inside its base type; no struct reaches itself through struct-typed usage.  What this does NOT cover is the two known
   findings: types inside union branches, and const literals out of range. *)
Definition C13_accepted_statement : Prop :=
  forall input f s, read_file input false = POk f s -> validate f = true ->
    sem_ok f /\
    (forall m, In m (messages f) -> NoDup (map fst (m_fields m)) /\ ~ In 0%N (map fst (m_fields m))) /\
    (forall u, In u (unions f) -> NoDup (map fst (un_fields u))) /\
    (forall e o, In e (enums f) -> In o (e_opts e) ->
       if e_unsigned e then (o_uvalue o < 2 ^ ebits e)%N else (- 2 ^ (Z.of_N (ebits e) - 1) <= o_value o < 2 ^ (Z.of_N (ebits e) - 1))%Z) /\
    (forall a, In a (snames (structs f)) -> ~ clo bytes (snames (structs f)) (direct (structs f)) a a).
Theorem C13_accepted : C13_accepted_statement.
Proof.
  intros input f s E V. split; [exact (validate_sound f V)|].
  destruct (C13_indices input false f s E) as [Hm Hu]. split; [exact Hm|]. split; [intros u Hin; exact (proj1 (Hu u Hin))|].
  split; [exact (C13_enum_range input false f s E)|]. exact (proj2 (proj1 (validate_rec f) V)).
Qed.
Print Assumptions C13_accepted.

(* The validator model's list of primitive type names (Valid.prims, hand-written: "a definition named like a primitive", and the
   names every field type may use) is the source's primitiveTypes table as translator T2 regenerates it on every run. *)
Require Import Bebop.gen.Tables.
From Coq Require Import String Ascii.
Definition bytes_of_string13 (s : string) : list N := map (fun a => N.of_nat (nat_of_ascii a)) (list_ascii_of_string s).
Definition C13_prims_statement : Prop := forall b : bytes, In b prims <-> In b (map bytes_of_string13 primitive_types).
Theorem C13_prims : C13_prims_statement.
Proof.
  assert (A : forallb (fun b => existsb (fun p => if list_eq_dec N.eq_dec p b then true else false) (map bytes_of_string13 primitive_types)) prims = true) by (vm_compute; reflexivity).
  assert (B : forallb (fun b => existsb (fun p => if list_eq_dec N.eq_dec p b then true else false) prims) (map bytes_of_string13 primitive_types) = true) by (vm_compute; reflexivity).
  rewrite forallb_forall in A, B. intros b. split; intros H.
  - specialize (A b H). apply existsb_exists in A. destruct A as (p & Hp & E). destruct (list_eq_dec N.eq_dec p b); [subst; exact Hp|discriminate].
  - specialize (B b H). apply existsb_exists in B. destruct B as (p & Hp & E). destruct (list_eq_dec N.eq_dec p b); [subst; exact Hp|discriminate].
Qed.
Print Assumptions C13_prims.
