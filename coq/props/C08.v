(* C08: I/O failures during encode always surface as errors; an EncodeBebop that returns nil wrote MarshalBebop's bytes. *)
Require Import Bebop.wire.Wire Bebop.wire.WireFacts Bebop.wire.Encoders Bebop.wire.EncodersFacts Bebop.wire.StreamDec Bebop.wire.FaultFacts Bebop.props.WireExample.

(* for an ARBITRARY fault pattern over the Write-call indices of the underlying writer *)
Definition C08_enc_statement : Prop :=
  forall s fault t v a, genc s t v = Some a ->
    (forall j, j < calls (fst (senc nofault s t v ew0)) -> fault j = true -> werr (fst (senc fault s t v ew0)) = true) /\
    (werr (fst (senc fault s t v ew0)) = false -> out (fst (senc fault s t v ew0)) = a).

Theorem C08_enc : C08_enc_statement.
Proof.
  intros s fault t v a G. split.
  - intros j Hj Hf. exact (C08_enc s fault v t a j G Hj Hf).
  - exact (C08_enc_ok s fault v t a G).
Qed.

Example C08_witness :
  calls (fst (senc nofault ex_schema (TRef 4) ex_value ew0)) = 22 /\
  werr (fst (senc (fun k => Nat.eqb k 21) ex_schema (TRef 4) ex_value ew0)) = true /\
  werr (fst (senc (fun k => Nat.eqb k 22) ex_schema (TRef 4) ex_value ew0)) = false.
Proof. repeat split; vm_compute; reflexivity. Qed.

Print Assumptions C08_enc.

(* The decode half: the io.Reader fails after delivering k bytes of an encoding (any k before its end, any error value -
   ErrorReader keeps whatever error it meets and the model does not distinguish them -, any chunking of the reads before
   the failure): DecodeBebop returns, with the latch set, i.e. with that error.  Same theorem as C06's stream half. *)
Definition C08_dec_statement : Prop := truncation_statement.
Theorem C08_dec : C08_dec_statement.
Proof. exact truncation_holds. Qed.
Print Assumptions C08_dec.
