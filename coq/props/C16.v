(* C16: formatting a schema never changes what it means.
   front/Fmt.v is an executable port of format.go over the same tokenizer model as the parser; lib/front.py (check_fmt)
   compares its output with bebop.Format's on every generated input and evaluates the property directly: that is what
   decides it.  The full statement on the model is C16_statement (front/FmtFacts.v): every accepted text is formatted
   without error into a text that is accepted and denotes the same schema up to doc comments and the tags written in them.
   Until the formatter was repaired that statement was FALSE of the code and of the model, and this file proved its
   refutation from four witness texts (typed enum header, T[][], import lines, [flags]).  With the repairs mirrored in the
   model the witnesses meet the statement; no general proof of it exists (it needs the inversion of the tokenizer on the
   formatter's output).  Proved: *)
Require Import Bebop.front.Tok Bebop.front.Parse Bebop.front.Fmt Bebop.front.FmtFacts Bebop.front.FmtSafe.

Definition C16_partial_statement : Prop :=
  (* for EVERY input text, accepted or not: Format does not panic *)
  (forall input, format input <> PPanic) /\
  (* the four texts that used to be mangled are formatted into accepted texts denoting the same schema *)
  holds16 w_typed_enum /\ holds16 w_array2 /\ holds16 w_import /\ holds16 w_flags.

Theorem C16_partial : C16_partial_statement.
Proof.
  split; [exact format_never_panics|]. split; [exact typed_enum_16|]. split; [exact array2_16|]. split; [exact import_16|exact flags_16].
Qed.
Print Assumptions C16_partial.
