(* C16: formatting a schema never changes what it means.
   front/Fmt.v is an executable port of format.go over the same tokenizer model as the parser; lib/front.py (check_fmt)
   compares its output with bebop.Format's on every generated input and evaluates the property directly: that is what
   decides it.  The full statement on the model is C16_statement (front/FmtFacts.v): every accepted text is formatted
   without error into a text that is accepted and denotes the same schema up to doc comments and the tags written in them.
   Until the formatter was repaired that statement was FALSE of the code and of the model, and this file proved its
   refutation from four witness texts (typed enum header, T[][], import lines, [flags]).  With the repairs mirrored in the
   model the witnesses meet the statement; no general proof of it exists (it needs the inversion of the tokenizer on the
   formatter's output).  Proved: *)
Require Import Bebop.front.Tok Bebop.front.Parse Bebop.front.Fmt Bebop.front.FmtFacts Bebop.front.FmtSafe.
Require Import Bebop.front.LexInv Bebop.front.ParseInv Bebop.front.FmtInv Bebop.front.MsgInv Bebop.front.GenInv Bebop.front.Items Bebop.front.TyInv Bebop.front.TyMsg Bebop.front.TyItems Bebop.front.TyUnion Bebop.front.TyUnionItem Bebop.front.TyOpcode Bebop.front.TyEnum Bebop.front.TyDep Bebop.front.TyDoc Bebop.front.TyDec Bebop.front.TyImport Bebop.front.Schema.
From Coq Require Import List.

Definition C16_partial_statement : Prop :=
  (* for EVERY input text, accepted or not: Format does not panic, and does not return an error (it has none of its own:
     format.go's only error is the writer's) - it yields a text, unless it runs out of fuel *)
  (forall input, format input <> PPanic) /\ (forall input, format input <> PErr) /\
  (* the four texts that used to be mangled are formatted into accepted texts denoting the same schema *)
  holds16 w_typed_enum /\ holds16 w_array2 /\ holds16 w_import /\ holds16 w_flags.

Theorem C16_partial : C16_partial_statement.
Proof.
  split; [exact format_never_panics|]. split; [exact format_never_errs|]. split; [exact typed_enum_16|]. split; [exact array2_16|]. split; [exact import_16|exact flags_16].
Qed.
Print Assumptions C16_partial.

(* The statement itself, proved on a core sub-language - for EVERY list of struct definitions (names, field types and field
   names any identifiers that are not keywords; any number of structs and fields; blank lines between definitions) and
   EVERY placement of horizontal whitespace, CRs included, in its one-field-per-line text: Format terminates without
   error, and ReadFile accepts its output as exactly the File the input states (and ReadFile of the input is that File
   too).  front/FmtInv.v: tokenizer inversion, Format stepped symbolically over the tokens, the output recognised as a
   text of the same class, the parser inversion of front/ParseInv.v applied to it. *)
Definition C16_structs_statement : Prop :=
  forall sl l tail,
    Forall sdef_ok sl -> map snd l = schema_lex sl -> Forall (fun p => hws (fst p)) l -> sep_ok l -> hws tail ->
    exists y, (exists s, format (render l tail) = POk y s) /\
              (exists s, read_file y false = POk (file_of sl) s) /\ (exists s, read_file (render l tail) false = POk (file_of sl) s).
Theorem C16_structs : C16_structs_statement.
Proof.
  intros sl l tail H1 H2 H3 H4 H5. destruct (structs_format_laws sl l tail H1 H2 H3 H4 H5) as (y & Hf & _ & _ & Hr & Hr0).
  exists y. auto.
Qed.
Print Assumptions C16_structs.

(* and with messages (front/MsgInv.v): any sequence of struct and message definitions, indices any decimal literal denoting
   1 .. 255 and distinct within a message, every layout *)
Definition C16_records_statement : Prop :=
  forall dl l tail,
    Forall defn_ok dl -> map snd l = defs_lex dl -> Forall (fun p => hws (fst p)) l -> sep_ok l -> hws tail ->
    exists y, (exists s, format (render l tail) = POk y s) /\
              (exists s, read_file y false = POk (dfile_of dl) s) /\ (exists s, read_file (render l tail) false = POk (dfile_of dl) s).
Theorem C16_records : C16_records_statement.
Proof.
  intros dl l tail H1 H2 H3 H4 H5. destruct (defs_format_laws dl l tail H1 H2 H3 H4 H5) as (y & Hf & _ & _ & Hr & Hr0).
  exists y. auto.
Qed.
Print Assumptions C16_records.

(* and with enums and container types, through the item framework (front/GenInv.v, front/Items.v, front/TyItems.v, front/Schema.v):
   any sequence of struct, readonly struct, message, enum and union definitions (union branches structs or messages, front/TyUnion.v; structs and messages optionally under an [opcode(..)] line, front/TyOpcode.v; enums optionally with an integer base type, front/TyEnum.v; message fields optionally deprecated, front/TyDep.v; struct and message FIELDS optionally under `//` doc comment lines - which are also where a field's tags come from - followed by an optional [deprecated(..)] line, front/TyFDoc.v / TyFDocM.v, and likewise the MEMBERS of an enum, front/TyEDoc.v, and the MEMBERS of a union, front/TyUDoc.v; enum values and integer opcodes decimal or 0x-hexadecimal literals (front/LexInv.v: next_hexnumber), struct fields optionally followed on their line by a `//` comment - which ReadFile skips and Format keeps on that line, front/TyFEol.v; structs and messages optionally under `//` doc comment lines, front/TyDoc.v - Format writes them back unchanged and puts no blank line before them; and, generically, ANY sequence of comment and opcode lines before a struct, readonly struct, message, union or typed enum, front/TyDec.v; import lines, front/TyImport.v), field types identifiers, array[T], map[K, V] and T[]
   nested to any depth (front/TyInv.v: format_type on the tokens of a type expression), every layout *)
Definition C16_schema_statement : Prop :=
  forall dl lay tail,
    Forall sdefn_ok dl -> map snd lay = schema_lexemes dl -> Forall (fun p => hws (fst p)) lay -> sep_ok lay -> hws tail ->
    exists y, (exists s, format (render lay tail) = POk y s) /\
              (exists s, read_file y false = POk (schema_file dl) s) /\ (exists s, read_file (render lay tail) false = POk (schema_file dl) s).
Theorem C16_schema : C16_schema_statement.
Proof.
  intros dl lay tail H1 H2 H3 H4 H5. destruct (schema_laws dl lay tail H1 H2 H3 H4 H5) as (y & Hf & _ & _ & Hr & Hr0).
  exists y. auto.
Qed.
Print Assumptions C16_schema.

(* Any number of passes: on that class the text after n passes of Format - for EVERY n, n = 0 being the input itself - is read by
   ReadFile as the very File the input states; the formatter can be applied again and again (bebopfmt -w run repeatedly over a tree)
   without the schema drifting. *)
Fixpoint format_passes (n : nat) (x : bytes) : option bytes :=
  match n with
  | O => Some x
  | S k => match format x with POk y _ => format_passes k y | _ => None end
  end.
Definition C16_schema_iter_statement : Prop :=
  forall dl lay tail n,
    Forall sdefn_ok dl -> map snd lay = schema_lexemes dl -> Forall (fun p => hws (fst p)) lay -> sep_ok lay -> hws tail ->
    exists y, format_passes n (render lay tail) = Some y /\ (exists s, read_file y false = POk (schema_file dl) s).
Theorem C16_schema_iter : C16_schema_iter_statement.
Proof.
  intros dl lay tail n H1 H2 H3 H4 H5.
  destruct (schema_laws dl lay tail H1 H2 H3 H4 H5) as (y & (s1 & Hf) & Hy & (s2 & Hi) & Hr & Hr0).
  destruct n as [|n]; [exists (render lay tail); split; [reflexivity|exact Hr0]|].
  exists y. split; [|exact Hr]. cbn [format_passes]. rewrite Hf. clear Hf s1 Hr0 Hr Hy.
  induction n as [|n IH]; [reflexivity|]. cbn [format_passes]. rewrite Hi. exact IH.
Qed.
Print Assumptions C16_schema_iter.

(* Outside the property (it quantifies over texts ReadFile accepts): on `struct A { int32 a` - no `;`, end of input - the
   formatter model never leaves its struct loop: it re-reads the kept token at every turn and only stops because the
   precomputed results run out (PEnd); the implementation, whose Next() keeps answering `false`, does not return (DESIGN.md
   section 9).  ReadFile rejects the text, and bebopfmt parses before it formats. *)
From Coq Require Import NArith.
Import ListNotations.
Example C16_format_unbounded_outside_the_property :
  format [115; 116; 114; 117; 99; 116; 32; 65; 32; 123; 32; 105; 110; 116; 51; 50; 32; 97]%N = PEnd /\
  read_file [115; 116; 114; 117; 99; 116; 32; 65; 32; 123; 32; 105; 110; 116; 51; 50; 32; 97]%N false = PErr.
Proof. split; vm_compute; reflexivity. Qed.

(* the conclusion of C16_schema computed on a union whose second member - after a member that spans lines - carries a comment
   line (the construct the implementation mishandled until 4fdef8a): Format's output is the canonical text, which is the text
   itself here, and it is read back as the same File, the comment on the second member's message *)
Require Import Bebop.front.TyFDoc Bebop.front.TyUDoc.
Example C16_schema_witness :
  let A := {| ic := 65%N; itl := [] |} in let B := {| ic := 66%N; itl := [] |} in let x := {| ic := 120%N; itl := [] |} in
  let i32 := {| ic := 105%N; itl := [110; 116; 51; 50]%N |} in
  let one := {| xc := 49%N; xds := []; xv := 1%N |} in let two := {| xc := 50%N; xds := []; xv := 2%N |} in
  let dl := [SFDocUnion {| ic := 85%N; itl := [] |} [([], (None, LUs one A [(LSimple i32 0, x)])); ([[32; 98]%N], (None, LUm two B []))] 0] in
  let lay := glayout (map xel_of dl) in
  Forall sdefn_ok dl /\ render lay [] = schema_canon dl /\
  (exists s, format (render lay []) = POk (schema_canon dl) s) /\
  (exists s, read_file (schema_canon dl) false = POk (schema_file dl) s) /\
  map (fun p => match u_msg (snd p) with Some m => m_comment m | None => [] end) (flat_map un_fields (unions (schema_file dl))) = [[]; [32; 98]%N].
Proof.
  cbv zeta. split; [repeat constructor; cbn; intuition discriminate|]. split; [vm_compute; reflexivity|].
  split; [eexists; vm_compute; reflexivity|]. split; [eexists; vm_compute; reflexivity|vm_compute; reflexivity].
Qed.
