(* C16: formatting a schema never changes what it means.
   front/Fmt.v is an executable port of format.go over the same tokenizer model as the parser; lib/front.py (check_fmt)
   compares its output with bebop.Format's on every generated input.  The full statement (C16_statement, in
   front/FmtFacts.v: every accepted text is formatted without error into a text that is accepted and denotes the same
   schema up to doc comments) is FALSE of the faithful model, as it is of the code: the theorem below refutes it with the
   four committed known findings as witnesses, each by computation.  Replayed on the implementation by the check, the same
   four texts are the KNOWN-FINDING lines. *)
Require Import Bebop.front.Tok Bebop.front.Parse Bebop.front.Fmt Bebop.front.FmtFacts Bebop.front.FmtSafe.

Definition C16_refuted_statement : Prop :=
  ~ C16_statement /\
  (* the witnesses, one per known finding *)
  output_rejected w_typed_enum /\       (* enum E : uint8 { A = 1; }       -> output no longer parses *)
  output_rejected w_array2 /\           (* struct A { int32[][] grid; }    -> output no longer parses *)
  output_differs w_import /\            (* import "a.bop" ...              -> the import is gone *)
  output_differs w_flags.               (* [flags] enum F { ... }          -> the enum is gone *)

Theorem C16_refuted : C16_refuted_statement.
Proof.
  split; [exact (rejected_refutes _ typed_enum_rejected)|].
  split; [exact typed_enum_rejected|]. split; [exact array2_rejected|]. split; [exact import_dropped|exact flags_differs].
Qed.
Print Assumptions C16_refuted.

(* what does hold of it for EVERY input text, accepted or not: Format does not panic *)
Definition C16_partial_statement : Prop := forall input, format input <> PPanic.
Theorem C16_partial : C16_partial_statement.
Proof. exact format_never_panics. Qed.
Print Assumptions C16_partial.
