(* C03: generated codecs speak the Bebop wire format, judged by a reference.
   The reference is [enc] of coq/wire/Wire.v: little-endian fixed-width scalars, u32-length-prefixed strings / arrays / maps,
   GUIDs in the .NET field order, message = u32 (body length + 1) + (index, value)* + 0, union = u32 body length +
   discriminator + body, enum = its base integer.  It is the statement of the format; the correspondence check (lib/c03.py)
   compares the bytes of the three generated encoders with it and feeds its encodings, in any map order, to the generated
   decoders.  What is proved here is that the reference is a sane codec: its decoder inverts it on every schema and value,
   in any order of map entries (the order is just the order of the association list), and the primitive layouts are the
   ones iohelp implements (tie to translator T1 through props/C20.v). *)
Require Import Bebop.wire.PrimBridge.
Require Import Bebop.wire.Wire Bebop.wire.WireFacts Bebop.wire.ByteDec Bebop.wire.ByteDecFacts Bebop.props.WireExample.

Definition C03_statement : Prop :=
  forall s, schema_wf s -> forall t v a, enc s t v = Some a ->
    (* the encoding has the stated length and is read back to the value, with anything after it left alone *)
    size s t v = length a /\
    (exists f0, forall fuel, f0 <= fuel -> forall rest,
        dec3 s {| safe := true; lim := None |} fuel t (a ++ rest) = Ok (v, length a, length a)) /\
    (* and no strict prefix of it is accepted *)
    (exists f0, forall fuel, f0 <= fuel -> forall k, k < length a -> forall r,
        dec3 s {| safe := true; lim := None |} fuel t (firstn k a) <> Ok r).

Theorem C03 : C03_statement.
Proof.
  intros s Hwf t v a E. split; [exact (L1 s v t a E)|]. split.
  - exact (roundtrip3 s {| safe := true; lim := None |} Hwf eq_refl v t a E).
  - exact (C06_byte s {| safe := true; lim := None |} Hwf eq_refl v t a E).
Qed.

(* the format, on concrete cases (computed): GUID field order, message framing, union framing, LE scalars *)
Example C03_format_examples :
  enc ex_schema (TPrim PGuid) (VS [0;1;2;3;4;5;6;7;8;9;10;11;12;13;14;15]%N) = Some [3;2;1;0;5;4;7;6;8;9;10;11;12;13;14;15]%N /\
  enc ex_schema (TPrim PInt32) (VZ (-2)) = Some [254;255;255;255]%N /\
  enc ex_schema (TRef 2) (VMsg [None; Some (VArr [VZ 5]); None; None]) = Some [10;0;0;0; 2; 1;0;0;0; 5;0;0;0; 0]%N /\
  enc ex_schema (TRef 3) (VUnion 1 (VStruct [VZ 1; VS [65]%N])) = Some [9;0;0;0; 1; 1;0;0;0; 1;0;0;0;65]%N.
Proof. repeat split; vm_compute; reflexivity. Qed.

(* the scalar, GUID, bool and date layouts of the reference are those of iohelp as translator T1 reads it from the source *)
Definition C03_prims_statement : Prop :=
  (forall p w sg z a buf wr, int_spec p = Some (w, sg) -> enc_prim p (VZ z) = Some a -> slice_writer p = Some wr -> w <= length buf ->
     IoLib.sl_write wr buf (IoLib.RZ z) = IoLib.Ok (a ++ skipn w buf) /\
     (p <> PDate -> forall rd, slice_reader p = Some rd -> IoLib.sl_read rd (a ++ skipn w buf) = IoLib.Ok (IoLib.RZ z))) /\
  (forall g buf, length g = 16 -> 16 <= length buf ->
     enc_prim PGuid (VS g) = Some (permute g) /\
     IoLib.sl_write IohelpGen.WriteGUIDBytes buf (IoLib.RBytes g) = IoLib.Ok (permute g ++ skipn 16 buf) /\
     IoLib.sl_read IohelpGen.ReadGUIDBytes (permute g ++ skipn 16 buf) = IoLib.Ok (IoLib.RBytes g)).
Theorem C03_prims : C03_prims_statement.
Proof. split; [exact int_prims_are_iohelp|exact guid_is_iohelp]. Qed.

Print Assumptions C03.
Print Assumptions C03_prims.
