(* C07: decoding arbitrary bytes never panics or runs away. *)
Require Import Bebop.wire.Wire Bebop.wire.ByteDec Bebop.wire.ByteDecFacts Bebop.wire.StreamDec Bebop.wire.FaultFacts Bebop.props.WireExample.

(* "Partial": termination is by fuel (that the fuel the harness passes suffices is observed, not proved), and the
   allocation bound is the known finding below.
   For EVERY byte string, every schema and type, every fuel: the checked byte-path decoder returns Ok, Err or - with a
   proportionality limit - Excess at a named allocation site; its only possible panic is a reference to an undefined type,
   which Validate excludes.  The run with the limit is the run without it unless it reports Excess. *)
Definition C07_partial_statement : Prop :=
  (forall s c, safe c = true -> forall fuel t bs, no_panic (dec3 s c fuel t bs)) /\
  (forall s sf k fuel t bs, not_excess (dec3 s {| safe := sf; lim := Some k |} fuel t bs) = true ->
     dec3 s {| safe := sf; lim := None |} fuel t bs = dec3 s {| safe := sf; lim := Some k |} fuel t bs) /\
  (* DecodeBebop: for EVERY reader state - any data, any schedule, any limit stack, latch set or not - the same *)
  (forall s lim fuel t r, no_panic (sdec s lim fuel t r)) /\
  (forall s k fuel t r, not_excess (sdec s (Some k) fuel t r) = true -> sdec s None fuel t r = sdec s (Some k) fuel t r).

Theorem C07_partial : C07_partial_statement.
Proof. split; [exact checked_decoder_never_panics|split; [exact guard_only_exits_early|split; [exact stream_decoder_never_panics|exact stream_guard_only_exits_early]]]. Qed.

(* the Excess outcomes are real: 8 bytes make the generated code ask for 2^31 - 1 elements before any check (known finding) *)
Example C07_excess_witness :
  dec3 ex_schema {| safe := true; lim := Some 64%N |} 20 (TRef 2) [13;0;0;0; 2; 255;255;255;127]%N = Excess SMakeArr.
Proof. vm_compute. reflexivity. Qed.
(* and the unchecked decoder does panic on short input, so the statement about the checked one is not vacuous *)
Example C07_unchecked_panics :
  dec3 ex_schema {| safe := false; lim := None |} 20 (TRef 1) [1;0]%N = Panic SPrimRead.
Proof. vm_compute. reflexivity. Qed.

Print Assumptions C07_partial.
