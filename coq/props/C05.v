(* C05: stream decoding consumes exactly one record, however reads are chunked; back-to-back records are read back in order. *)
Require Import Bebop.wire.Wire Bebop.wire.WireFacts Bebop.wire.ByteDecFacts Bebop.wire.StreamDec Bebop.wire.StreamFacts Bebop.props.WireExample.

(* a history: records decoded one after the other from ONE underlying reader; every DecodeBebop call wraps the reader in a
   fresh ErrorReader (clear latch, no LimitedReader installed); the reader keeps its position and its chunk schedule *)
Fixpoint decode_seq (s : schema) (fuel : nat) (ts : list ty) (b : base) : option (list value * base) :=
  match ts with
  | [] => Some ([], b)
  | t :: ts' =>
      match sdec s None fuel t {| bs := b; limits := []; err := false |} with
      | Ok (v, r') => if err r' then None else
                        match decode_seq s fuel ts' (bs r') with Some (vs, b') => Some (v :: vs, b') | None => None end
      | _ => None
      end
  end.

(* all records of a history, written back to back, followed by anything *)
Fixpoint encodings (s : schema) (tvs : list (ty * value)) : option bytes :=
  match tvs with
  | [] => Some []
  | (t, v) :: r => a <- enc s t v ;; b <- encodings s r ;; Some (a ++ b)
  end.

(* for EVERY read schedule (any fragmentation with chunks >= 1): the same sequence comes back, and the reader is left
   exactly at the end of the last record - no byte more, no byte fewer *)
Definition C05_statement : Prop :=
  forall s, schema_wf s -> forall tvs all, encodings s tvs = Some all ->
    exists f0, forall fuel, f0 <= fuel -> forall rest sch,
      exists b', decode_seq s fuel (map fst tvs) {| data := all ++ rest; sched := sch |} = Some (map snd tvs, b') /\ data b' = rest.

Theorem C05 : C05_statement.
Proof.
  intros s Hwf. induction tvs as [|[t v] tvs IH]; cbn [encodings map fst snd decode_seq]; intros all E.
  - injection E as <-. exists 0. intros fuel _ rest sch. eexists. split; reflexivity.
  - destruct (enc s t v) as [a|] eqn:Ea; cbn [obind] in E; [|discriminate].
    destruct (encodings s tvs) as [b|] eqn:Eb; cbn [obind] in E; [|discriminate]. injection E as <-.
    destruct (stream_roundtrip s Hwf v t a Ea) as [f1 H1]. destruct (IH b eq_refl) as [f2 H2].
    exists (max f1 f2). intros fuel Hf rest sch. rewrite <- app_assoc.
    destruct (H1 fuel ltac:(lia) {| bs := {| data := a ++ b ++ rest; sched := sch |}; limits := []; err := false |} (b ++ rest) eq_refl (Forall_nil _) eq_refl)
      as (r' & -> & (D & _ & Er)).
    cbn [err bs data] in *. rewrite Er.
    destruct (bs r') as [d' sch'] eqn:Eb'. cbn [data] in D. rewrite skipn_app_len in D. subst d'.
    destruct (H2 fuel ltac:(lia) rest sch') as (b' & -> & Db). exists b'. split; [reflexivity|exact Db].
Qed.

Example C05_witness :
  exists b', decode_seq ex_schema 30 [TRef 4; TRef 1] {| data := ex_bytes ++ [5;0;0;0; 1;0;0;0;65]%N ++ [238%N]; sched := [1; 2; 1; 3; 1; 1; 7; 1] |}
             = Some ([ex_value; VStruct [VZ 5; VS [65%N]]], b') /\ data b' = [238%N].
Proof. eexists. split; vm_compute; reflexivity. Qed.

Print Assumptions C05.

(* the last clause of the property, over histories: the number of bytes the decoder takes from the reader for a sequence of records
   is the sum of Size() of the values it returned - for every read schedule *)
Fixpoint sizes (s : schema) (tvs : list (ty * value)) : nat :=
  match tvs with
  | [] => 0
  | (t, v) :: r => size s t v + sizes s r
  end.
Lemma encodings_length s : forall tvs all, encodings s tvs = Some all -> length all = sizes s tvs.
Proof.
  induction tvs as [|[t v] tvs IH]; cbn [encodings sizes]; intros all E.
  - injection E as <-. reflexivity.
  - destruct (enc s t v) as [a|] eqn:Ea; cbn [obind] in E; [|discriminate].
    destruct (encodings s tvs) as [b|] eqn:Eb; cbn [obind] in E; [|discriminate]. injection E as <-.
    rewrite app_length, (IH b eq_refl), (L1 s v t a Ea). reflexivity.
Qed.
Definition C05_size_statement : Prop :=
  forall s, schema_wf s -> forall tvs all, encodings s tvs = Some all ->
    exists f0, forall fuel, f0 <= fuel -> forall rest sch,
      exists b', decode_seq s fuel (map fst tvs) {| data := all ++ rest; sched := sch |} = Some (map snd tvs, b') /\
                 length (all ++ rest) - length (data b') = sizes s tvs.
Theorem C05_size : C05_size_statement.
Proof.
  intros s Hwf tvs all E. destruct (C05 s Hwf tvs all E) as [f0 H]. exists f0. intros fuel Hf rest sch.
  destruct (H fuel Hf rest sch) as (b' & Hd & Hr). exists b'. split; [exact Hd|].
  rewrite Hr, app_length, (encodings_length s tvs all E). lia.
Qed.
Print Assumptions C05_size.
