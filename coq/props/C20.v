(* C20: iohelp primitives are exact inverses and never return stale data as valid.
   Every statement below is about the descriptors in gen/IohelpGen.v, which translator T1 regenerates from
   iohelp/iohelp.go on every run; the side conditions of the generic lemmas (wire/IoLibFacts.v) are discharged by
   computation on those generated definitions. *)
Require Import Bebop.wire.IoLib Bebop.wire.IoLibFacts Bebop.gen.IohelpGen.

Definition unfloat (f : slice_fn) : slice_fn := match f with sl_float g => g | _ => f end.
Lemma read_unfloat f buf : sl_read f buf = sl_read (unfloat f) buf.
Proof. destruct f; reflexivity. Qed.
Lemma write_unfloat f buf v : sl_write f buf v = sl_write (unfloat f) buf v.
Proof. destruct f; try reflexivity; destruct v; reflexivity. Qed.

(* ---- the table of fixed-width integer-like primitives (floats are their IEEE bit patterns) ---- *)
Record entry := { e_rd : slice_fn; e_wr : slice_fn; e_srd : stream_fn; e_swr : stream_fn; e_width : nat; e_signed : bool }.
Definition int_table : list entry := [
  {| e_rd := ReadByteBytes;    e_wr := WriteByteBytes;    e_srd := ReadByte;    e_swr := WriteByte;    e_width := 1; e_signed := false |};
  {| e_rd := ReadUint8Bytes;   e_wr := WriteUint8Bytes;   e_srd := ReadUint8;   e_swr := WriteUint8;   e_width := 1; e_signed := false |};
  {| e_rd := ReadUint16Bytes;  e_wr := WriteUint16Bytes;  e_srd := ReadUint16;  e_swr := WriteUint16;  e_width := 2; e_signed := false |};
  {| e_rd := ReadInt16Bytes;   e_wr := WriteInt16Bytes;   e_srd := ReadInt16;   e_swr := WriteInt16;   e_width := 2; e_signed := true |};
  {| e_rd := ReadUint32Bytes;  e_wr := WriteUint32Bytes;  e_srd := ReadUint32;  e_swr := WriteUint32;  e_width := 4; e_signed := false |};
  {| e_rd := ReadInt32Bytes;   e_wr := WriteInt32Bytes;   e_srd := ReadInt32;   e_swr := WriteInt32;   e_width := 4; e_signed := true |};
  {| e_rd := ReadUint64Bytes;  e_wr := WriteUint64Bytes;  e_srd := ReadUint64;  e_swr := WriteUint64;  e_width := 8; e_signed := false |};
  {| e_rd := ReadInt64Bytes;   e_wr := WriteInt64Bytes;   e_srd := ReadInt64;   e_swr := WriteInt64;   e_width := 8; e_signed := true |};
  {| e_rd := ReadFloat32Bytes; e_wr := WriteFloat32Bytes; e_srd := ReadFloat32; e_swr := WriteFloat32; e_width := 4; e_signed := false |};
  {| e_rd := ReadFloat64Bytes; e_wr := WriteFloat64Bytes; e_srd := ReadFloat64; e_swr := WriteFloat64; e_width := 8; e_signed := false |} ].

Definition swrite_ok (f : stream_fn) (w : nat) : bool :=
  match f with st_write_byte => w =? 1 | _ => swrite_wf f && (width_of (wslice_of f) =? w) end.

Definition entry_ok (e : entry) : bool :=
  load_wf (unfloat (e_rd e)) && store_wf (unfloat (e_wr e))
  && (width_of (unfloat (e_rd e)) =? e_width e) && (width_of (unfloat (e_wr e)) =? e_width e)
  && Bool.eqb (is_signed (unfloat (e_rd e))) (e_signed e)
  && sread_wf (e_srd e) && (swidth (e_srd e) =? e_width e)
  && (match slice_of (e_srd e), unfloat (e_rd e) with
      | sl_load p w s, sl_load p' w' s' => (p =? p') && (w =? w') && Bool.eqb s s'
      | sl_index0, sl_index0 => true
      | _, _ => false end)
  && swrite_ok (e_swr e) (e_width e).

(* obligations computed from the generated definitions *)
Lemma table_ok : forallb entry_ok int_table = true.
Proof. vm_compute. reflexivity. Qed.

Lemma reader_mode_ok : ErrorReader_Read = er_read_full_sticky_zeroing.
Proof. reflexivity. Qed.
Lemma writer_mode_ok : ErrorWriter_Write = ew_write_latching.
Proof. reflexivity. Qed.
Lemma scratch_ok : NewErrorReader = new_er_reusing 8 /\ NewErrorWriter = new_ew_reusing 8.
Proof. split; reflexivity. Qed.

Lemma guid_ok :
  ReadGUIDBytes = sl_perm_read dotnet_guid /\ WriteGUIDBytes = sl_perm_write 15 dotnet_guid
  /\ WriteGUID = st_write_perm dotnet_guid /\ ReadGUID = st_read_fresh 16 ReadGUIDBytes.
Proof. repeat split; reflexivity. Qed.

Lemma bool_ok : ReadBoolBytes = sl_bool0 /\ WriteBoolBytes = sl_putbool0 /\ ReadBool = st_read_bool /\ WriteBool = st_write_bool.
Proof. repeat split; reflexivity. Qed.

Lemma string_ok : string_wf ReadStringBytes = true /\ string_wf ReadStringBytesSharedMemory = true
  /\ str_lo ReadStringBytes = 4 /\ str_lo ReadStringBytesSharedMemory = 4
  /\ ReadString = st_read_string ReadUint32.
Proof. repeat split; reflexivity. Qed.

Lemma date_ok : date_wf ReadDateBytes = true /\ ReadDate = st_read 8 ReadDateBytes.
Proof. split; reflexivity. Qed.

Lemma entry_facts e : In e int_table -> entry_ok e = true.
Proof. intros H. exact (proj1 (forallb_forall _ _) table_ok e H). Qed.

Lemma entry_ok_inv e : In e int_table ->
  load_wf (unfloat (e_rd e)) = true /\ store_wf (unfloat (e_wr e)) = true /\
  width_of (unfloat (e_rd e)) = e_width e /\ width_of (unfloat (e_wr e)) = e_width e /\
  is_signed (unfloat (e_rd e)) = e_signed e /\ sread_wf (e_srd e) = true /\ swidth (e_srd e) = e_width e /\
  swrite_ok (e_swr e) (e_width e) = true.
Proof.
  intros He. pose proof (entry_facts e He) as H. unfold entry_ok in H. rewrite !andb_true_iff in H.
  destruct H as ((((((((A & B) & C) & D) & E) & F) & G) & _) & I).
  apply Nat.eqb_eq in C, D, G. apply Bool.eqb_prop in E. repeat split; assumption.
Qed.

(* ================= the property ================= *)

Definition value_in_range (e : entry) (z : Z) : Prop :=
  if e_signed e then signed_range (e_width e) z else (0 <= z < 2 ^ (8 * Z.of_nat (e_width e)))%Z.

(* (1) exact inverses with little-endian layout, for EVERY value of the width (this subsumes the exhaustive 8/16-bit
   sweep), any buffer at least as long as the width; bytes beyond the width are untouched; no unsafe access ever *)
Definition C20_inverse_statement : Prop :=
  forall e, In e int_table -> forall buf z, e_width e <= length buf -> value_in_range e z ->
    exists buf', sl_write (e_wr e) buf (RZ z) = Ok buf' /\ sl_read (e_rd e) buf' = Ok (RZ z)
              /\ buf' = le_enc (e_width e) (of_signed (e_width e) z) ++ skipn (e_width e) buf.

Theorem C20_inverse : C20_inverse_statement.
Proof.
  intros e He buf z Hl Hr. destruct (entry_ok_inv e He) as (A & B & C & D & E & _).
  rewrite write_unfloat. setoid_rewrite read_unfloat.
  rewrite <- C. apply int_inverse; try assumption; try congruence; try lia.
  unfold in_range, value_in_range in *. rewrite E, C. exact Hr.
Qed.

Definition C20_no_unsafe_statement : Prop :=
  forall e, In e int_table -> forall buf v, sl_read (e_rd e) buf <> Unsafe /\ sl_write (e_wr e) buf v <> Unsafe.
Theorem C20_no_unsafe : C20_no_unsafe_statement.
Proof.
  intros e He buf v. destruct (entry_ok_inv e He) as (A & B & _).
  rewrite write_unfloat, read_unfloat. split; [now apply read_never_unsafe|now apply write_never_unsafe].
Qed.

Definition C20_bool_statement : Prop :=
  forall b x buf, sl_write WriteBoolBytes (x :: buf) (RB b) = Ok ((if b then 1%N else 0%N) :: buf)
             /\ sl_read ReadBoolBytes ((if b then 1%N else 0%N) :: buf) = Ok (RB b).
Theorem C20_bool : C20_bool_statement.
Proof. intros b x buf. destruct b; split; reflexivity. Qed.

(* (2) GUIDs: the wire order is the .NET field order, reader and writer are mutually inverse *)
Definition C20_guid_statement : Prop :=
  forall buf g, length g = 16 -> 16 <= length buf ->
    exists buf', sl_write WriteGUIDBytes buf (RBytes g) = Ok buf' /\ sl_read ReadGUIDBytes buf' = Ok (RBytes g)
              /\ buf' = map (fun i => nth i g 0%N) dotnet_guid ++ skipn 16 buf.
Theorem C20_guid : C20_guid_statement.
Proof. intros buf g Hg Hb. destruct guid_ok as (-> & -> & _). now apply guid_inverse. Qed.

(* (3) a zero time and tick 0 correspond (for every tick count whose nanoseconds fit an int64) *)
Definition C20_date_statement : Prop :=
  forall ticks junk, signed_range 8 (ticks * 100) ->
    sl_read ReadDateBytes (le_enc 8 (of_signed 8 ticks) ++ junk)
    = Ok (RDate (if (ticks =? 0)%Z then DZero else DUnix (ticks * 100))).
Theorem C20_date : C20_date_statement.
Proof.
  intros ticks junk Hr. destruct date_ok as [Hd _].
  assert (Ht : signed_range 8 ticks) by (unfold signed_range in *; lia).
  rewrite (date_read _ ticks junk Hd Ht). rewrite wrap64_id by exact Hr.
  destruct (Z.eqb_spec ticks 0) as [->|N]; [reflexivity|].
  destruct (Z.eqb_spec (ticks * 100) 0); [lia|reflexivity].
Qed.

(* (4) ReadStringBytes returns an error instead of reading out of bounds -- on EVERY buffer *)
Definition C20_string_checked_statement : Prop :=
  forall f, f = ReadStringBytes \/ f = ReadStringBytesSharedMemory -> forall buf,
    sl_read f buf = Err \/
    exists sz, sl_read f buf = Ok (RBytes (firstn sz (skipn 4 buf))) /\ 4 + sz <= length buf
            /\ sl_read ReadUint32Bytes buf = Ok (RZ (Z.of_nat sz)).
Theorem C20_string_checked : C20_string_checked_statement.
Proof.
  intros f Hf buf. destruct string_ok as (W1 & W2 & L1 & L2 & _).
  assert (Hw : string_wf f = true /\ str_lo f = 4) by (destruct Hf; subst; auto). destruct Hw as [Hw Hlo].
  destruct (string_checked_total f buf Hw) as [E|(sz & E & B & C)]; [now left|right].
  rewrite Hlo in *. exists sz. split; [exact E|]. split; [exact B|].
  change ReadUint32Bytes with (sl_load 3 4 false). cbn [sl_read]. change (4 - 1) with 3 in C. rewrite C.
  cbn [obind_out interp]. now rewrite nat_N_Z.
Qed.

(* (5) stream and slice variants agree; a stream read consumes exactly the width; a failed or late read latches the
   error and returns the value of an all-zero buffer, whatever the scratch held: nothing left over from an earlier read *)
Definition stream_readers : list stream_fn :=
  map e_srd int_table ++ [ReadBool; ReadGUID; ReadDate].

Definition C20_stream_read_statement : Prop :=
  forall f, In f stream_readers -> forall r, length (scratch r) = 8 ->
    let res := st_read_sem ErrorReader_Read f r in
    let w := swidth f in
    (* agreement and exact consumption *)
    (rerr r = false -> forall a tl, rest r = a ++ tl -> length a = w ->
        fst res = sl_read (slice_of f) a /\ rest (snd res) = tl /\ rerr (snd res) = false) /\
    (* latch *)
    (length (rest r) < w -> rerr (snd res) = true) /\
    (* freshness: after a failure the value is that of zero bytes; never depends on the scratch *)
    (rerr r = true \/ length (rest r) < w -> fst res = sl_read (slice_of f) (zeros w)) /\
    (forall sc, length sc = 8 ->
        fst (st_read_sem ErrorReader_Read f {| rest := rest r; rerr := rerr r; scratch := sc |}) = fst res).

Lemma stream_readers_wf : forallb sread_wf stream_readers = true.
Proof. vm_compute. reflexivity. Qed.

Theorem C20_stream_read : C20_stream_read_statement.
Proof.
  intros f Hf r Hsc. rewrite reader_mode_ok.
  pose proof (proj1 (forallb_forall _ _) stream_readers_wf f Hf) as Hwf.
  destruct (st_read_char f r Hwf Hsc) as (Hv & Hr & He & _). cbn zeta.
  split; [|split; [|split]].
  - intros E a tl Hrest Ha. rewrite Hv, Hr, He. unfold fetch_bytes, fetch_rest, fetch_err. rewrite E, Hrest, app_length.
    destruct (Nat.leb_spec (swidth f) (length a + length tl)); [|lia].
    rewrite <- Ha, firstn_app_len, skipn_app_len. auto.
  - intros Hs. rewrite He. unfold fetch_err. destruct (rerr r); [reflexivity|].
    destruct (Nat.leb_spec (swidth f) (length (rest r))); [lia|reflexivity].
  - intros Hs. rewrite Hv. unfold fetch_bytes. destruct (rerr r); [reflexivity|].
    destruct Hs as [|Hs]; [discriminate|]. destruct (Nat.leb_spec (swidth f) (length (rest r))); [lia|reflexivity].
  - intros sc Hsc'. rewrite Hv.
    destruct (st_read_char f {| rest := rest r; rerr := rerr r; scratch := sc |} Hwf Hsc') as (Hv' & _).
    rewrite Hv'. reflexivity.
Qed.

(* strings on the stream: count, then that many fresh bytes; zeros (never stale bytes) when the data runs out *)
Definition C20_stream_string_statement : Prop :=
  forall r, length (scratch r) = 8 -> rerr r = false ->
    forall n s tl, (n < 2 ^ 32)%N -> rest r = le_enc 4 n ++ s ++ tl ->
      let res := st_read_sem ErrorReader_Read ReadString r in
      (length s = N.to_nat n -> fst res = Ok (RBytes s) /\ rest (snd res) = tl /\ rerr (snd res) = false) /\
      (length (s ++ tl) < N.to_nat n -> fst res = Ok (RBytes (zeros (N.to_nat n))) /\ rerr (snd res) = true).

Theorem C20_stream_string : C20_stream_string_statement.
Proof.
  intros r Hsc E n s tl Hn Hrest. rewrite reader_mode_ok. destruct string_ok as (_ & _ & _ & _ & ->).
  assert (Hwf : sread_wf ReadUint32 = true) by reflexivity.
  assert (Hz : sl_read (slice_of ReadUint32) (fetch_bytes r (swidth ReadUint32)) = Ok (RZ (Z.of_N n))).
  { unfold fetch_bytes. rewrite E, Hrest. change (swidth ReadUint32) with 4.
    destruct (Nat.leb_spec 4 (length (le_enc 4 n ++ s ++ tl))) as [_|L]; [|rewrite app_length, le_enc_length in L; lia].
    rewrite firstn_le.
    change (slice_of ReadUint32) with (sl_load 3 4 false). cbn [sl_read load_n].
    rewrite <- (app_nil_r (le_enc 4 n)). rewrite raw_load_app by (try apply le_enc_length; lia).
    cbn [obind_out interp]. rewrite le_dec_enc by exact Hn. reflexivity. }
  destruct (st_read_string_char ReadUint32 r Hwf Hsc (Z.of_N n) Hz) as (Hv & Hr & He).
  destruct (st_read_char ReadUint32 r Hwf Hsc) as (_ & Hr1 & He1 & _).
  set (r1 := snd (st_read_sem er_read_full_sticky_zeroing ReadUint32 r)) in *.
  assert (R1 : rest r1 = s ++ tl).
  { rewrite Hr1. unfold fetch_rest. rewrite E, Hrest. change (swidth ReadUint32) with 4.
    destruct (Nat.leb_spec 4 (length (le_enc 4 n ++ s ++ tl))) as [_|L]; [|rewrite app_length, le_enc_length in L; lia].
    apply skipn_le. }
  assert (E1 : rerr r1 = false).
  { rewrite He1. unfold fetch_err. rewrite E, Hrest. change (swidth ReadUint32) with 4.
    destruct (Nat.leb_spec 4 (length (le_enc 4 n ++ s ++ tl))) as [_|L]; [|rewrite app_length, le_enc_length in L; lia].
    reflexivity. }
  cbn zeta. rewrite Hv, Hr, He. replace (Z.to_nat (Z.of_N n)) with (N.to_nat n) by lia. unfold fetch_bytes, fetch_rest, fetch_err. rewrite E1, R1.
  split.
  - intros Hs. rewrite app_length. destruct (Nat.leb_spec (N.to_nat n) (length s + length tl)); [|lia].
    rewrite <- Hs, firstn_app_len, skipn_app_len. auto.
  - intros Hs. destruct (Nat.leb_spec (N.to_nat n) (length (s ++ tl))); [lia|]. auto.
Qed.

(* (6) a stream write is ONE Write call carrying exactly the bytes of the slice writer; a failing call latches *)
Definition C20_stream_write_statement : Prop :=
  forall e, In e int_table -> e_width e > 1 -> forall w z, length (wscratch w) = 8 ->
    exists w', st_write_sem (e_swr e) w (RZ z) = Ok w' /\
      calls w' = calls w ++ [le_enc (e_width e) (of_signed (e_width e) z)] /\
      werr w' = werr w || wfail w (length (calls w)).
Theorem C20_stream_write : C20_stream_write_statement.
Proof.
  intros e He Hw1 w z Hsc. destruct (entry_ok_inv e He) as (_ & _ & _ & _ & _ & _ & _ & K0).
  unfold swrite_ok in K0.
  destruct (e_swr e) eqn:Es; cbn [swrite_ok] in K0;
    try (apply Nat.eqb_eq in K0; lia);
    apply andb_true_iff in K0; destruct K0 as [Kw Kn]; apply Nat.eqb_eq in Kn;
    try discriminate Kw;
    (destruct (st_write_char _ w z Kw Hsc) as (w' & A & B & C & _); rewrite Kn in B; eauto).
Qed.

Definition C20_statement : Prop :=
  C20_inverse_statement /\ C20_no_unsafe_statement /\ C20_bool_statement /\ C20_guid_statement /\ C20_date_statement
  /\ C20_string_checked_statement /\ C20_stream_read_statement /\ C20_stream_string_statement /\ C20_stream_write_statement.

Theorem C20 : C20_statement.
Proof.
  exact (conj C20_inverse (conj C20_no_unsafe (conj C20_bool (conj C20_guid (conj C20_date
        (conj C20_string_checked (conj C20_stream_read (conj C20_stream_string C20_stream_write)))))))).
Qed.

(* non-vacuity: the hypotheses are met by concrete non-trivial cases *)
Example C20_witness_int16 :
  In (nth 3 int_table (nth 0 int_table (nth 0 int_table
       {| e_rd := sl_index0; e_wr := sl_put0; e_srd := st_read_bool; e_swr := st_write_bool; e_width := 0; e_signed := false |}))) int_table
  /\ sl_write WriteInt16Bytes [7; 7; 7]%N (RZ (-2)) = Ok [254; 255; 7]%N
  /\ sl_read ReadInt16Bytes [254; 255; 7]%N = Ok (RZ (-2)).
Proof. repeat split; vm_compute; auto 10. Qed.
Example C20_witness_stale :
  (* with the pre-fix latching reader the same read WOULD return stale scratch bytes: the statement is not vacuous *)
  fst (st_read_sem er_read_full_latching ReadUint16 {| rest := [1%N]; rerr := false; scratch := [9; 9; 9; 9; 9; 9; 9; 9]%N |}) = Ok (RZ 2305)
  /\ fst (st_read_sem ErrorReader_Read ReadUint16 {| rest := [1%N]; rerr := false; scratch := [9; 9; 9; 9; 9; 9; 9; 9]%N |}) = Ok (RZ 0).
Proof. split; vm_compute; reflexivity. Qed.
(* observation outside the property's range: tick 2^62 also decodes to the zero time (100 * 2^62 wraps to 0) *)
Example C20_date_wrap_observation :
  sl_read ReadDateBytes (le_enc 8 (2 ^ 62)) = Ok (RDate DZero).
Proof. vm_compute. reflexivity. Qed.

Print Assumptions C20.
