(* C18: imports resolve, terminate, and mean the same as inlining.
   sys/Worklist.v ports the import worklist of File.Generate (dedup by joined path); sys/Dfs.v ports
   internal/importgraph.FindCycle (naive DFS with a visited set that is only consulted between top-level searches).
   The graphs the implementation builds from real files are compared with these models' verdicts by lib/c18.py. *)
Require Import Bebop.sys.Dfs Bebop.sys.Worklist.
From Coq Require Import List NArith.

Definition C18_partial_statement : Prop :=
  (* the cycle search is exact, in ANY order of the top-level loop: what it reports is a cycle, and when it reports nothing
     every searched node is acyclic *)
  (forall g fuel order visited c, find_cycle fuel g order visited = Found c -> path g c c) /\
  (forall g fuel order visited, (forall u, In u visited -> acyclic_from g u) ->
     find_cycle fuel g order visited = NotFound -> forall n, In n order -> acyclic_from g n) /\
  (* one search from one node: exact, and it terminates within |nodes| nested calls *)
  (forall g fuel from, dfs fuel g from nil <> Fuel ->
     ((exists c, dfs fuel g from nil = Found c) <-> (path g from from \/ exists u, path g from u /\ path g u u))) /\
  (forall g U, (forall a b, In b (g a) -> In b U) -> forall fuel from stack,
     NoDup (from :: stack) -> incl (from :: stack) U -> length U <= fuel + length stack -> dfs fuel g from stack <> Fuel) /\
  (* the import worklist terminates for EVERY import graph (cyclic, diamond, self-import) ... *)
  (forall fs U, NoDup U -> forall fuel queue imported edges,
     (forall from p, In (from, p) queue -> In p U) -> (forall p bf s, fs p = Some bf -> In s (imps bf) -> In s U) ->
     length queue + pending fs U imported < fuel -> work fuel fs queue imported edges <> WFuel) /\
  (* ... and collects every transitively imported file exactly once *)
  (forall fs fuel queue imported edges final edges', winv fs queue imported -> work fuel fs queue imported edges = Done final edges' ->
     NoDup final /\ (forall p, In p imported \/ In p (targets queue) -> In p final) /\
     (forall p bf s, In p final -> fs p = Some bf -> In s (imps bf) -> In s final)).

Theorem C18_partial : C18_partial_statement.
Proof.
  split; [exact find_cycle_sound|]. split; [exact find_cycle_complete|]. split; [exact dfs_exact|].
  split; [exact dfs_fuel|]. split; [exact work_terminates|exact work_result].
Qed.
Print Assumptions C18_partial.
