(* C19: the command-line tools never damage files they cannot process - partial by nature (kernel, rename atomicity assumed).
   gen/CliSteps.v is regenerated from main/bebopc-go/main.go and main/bebopfmt/main.go by translator T4: the order of the
   effectful calls of each tool.  The obligation below fails when a step that touches the target moves in front of the work
   that can fail. *)
Require Import Bebop.sys.Sys Bebop.gen.CliSteps.
From Coq Require Import List.
Import ListNotations.

(* with a safe order a fault at ANY step leaves the target exactly as it was and is reported; without a fault the new
   content is installed *)
Definition C19_partial_statement : Prop :=
  forall steps, In steps [bebopc_steps; bebopfmt_steps] ->
    (forall k, k < length steps -> run steps (Some k) Old = (Old, true)) /\ fst (run steps None Old) = New.

Theorem C19_partial : C19_partial_statement.
Proof.
  intros steps [<-|[<-|[]]]; apply C19_safe; vm_compute; reflexivity.
Qed.
Print Assumptions C19_partial.
