(* C12: whatever the compiler accepts, it turns into Go code that compiles - PARTIAL BY NATURE.
   Go's type system is not modelled, so "the emitted text type-checks" cannot be a theorem here; that part is decided by
   go/types on an enumeration (lib/c12.py).  What IS modelled are the generator's type tables, regenerated from
   primitive.go and gen_templates.go by translator T2 on every run (gen/Tables.v), and the obligations a missing or wrong
   entry would violate - each a statement over a FINITE table, proved by computation and lifted with forallb_forall:
   the six template tables are built by ranging over fixedSizeTypes plus the string entry, so a primitive that Validate
   lets through but that has no fixedSizeTypes entry would have no template (undefined code / a silently unencoded
   field); a size that disagrees with the width iohelp reads makes the length checks and Size() wrong. *)
From Coq Require Import String List Bool Arith.
Import ListNotations.
Require Import Bebop.gen.Tables Bebop.gen.IohelpGen.
Require Bebop.wire.IoLib Bebop.wire.Wire.
Open Scope string_scope.

Definition lookup {A} (k : string) (l : list (string * A)) : option A :=
  match find (fun kv => String.eqb (fst kv) k) l with Some kv => Some (snd kv) | None => None end.
Definition mem (k : string) (l : list string) : bool := existsb (String.eqb k) l.

(* the generator's naming rule "iohelp.Read" + Title(type) + "Bytes" (fixedTitleString), as a table into T1's output *)
Definition iohelp_reader : list (string * IoLib.slice_fn) :=
  [("bool", ReadBoolBytes); ("byte", ReadByteBytes); ("uint8", ReadUint8Bytes); ("uint16", ReadUint16Bytes); ("int16", ReadInt16Bytes);
   ("uint32", ReadUint32Bytes); ("int32", ReadInt32Bytes); ("uint64", ReadUint64Bytes); ("int64", ReadInt64Bytes);
   ("float32", ReadFloat32Bytes); ("float64", ReadFloat64Bytes); ("guid", ReadGUIDBytes); ("date", ReadDateBytes)].
(* the wire model's primitive of a type name *)
Definition model_prim : list (string * Wire.prim) :=
  [("bool", Wire.PBool); ("byte", Wire.PByte); ("uint8", Wire.PUint8); ("uint16", Wire.PUint16); ("int16", Wire.PInt16);
   ("uint32", Wire.PUint32); ("int32", Wire.PInt32); ("uint64", Wire.PUint64); ("int64", Wire.PInt64);
   ("float32", Wire.PFloat32); ("float64", Wire.PFloat64); ("string", Wire.PString); ("guid", Wire.PGuid); ("date", Wire.PDate)].

(* (1) every primitive type name has a template: it is "string" or has a fixedSizeTypes entry *)
Definition has_template (p : string) : bool := String.eqb p "string" || match lookup p fixed_size_types with Some _ => true | None => false end.
(* (2) the size the generator assumes is the width iohelp reads, and the size of the wire model *)
Definition size_agrees (kv : string * nat) : bool :=
  match lookup (fst kv) iohelp_reader, lookup (fst kv) model_prim with
  | Some rd, Some p => (Nat.eqb (IoLib.width_of rd) (snd kv)) && match Wire.fixed_size p with Some w => Nat.eqb w (snd kv) | None => false end
  | _, _ => false
  end.
(* (3) the enum base types: decodeIntegerType is defined exactly on the integer types, with the width of the table and the
   signedness of the wire model *)
Definition enum_base_ok (p : string) : bool :=
  match lookup p decode_integer_type, lookup p fixed_size_types, lookup p model_prim with
  | Some (bits, uns), Some sz, Some mp =>
      (Nat.eqb bits (8 * sz)) && Bool.eqb uns (mem p uint_types) && negb (mem p float_types) &&
      match Wire.int_spec mp with Some (w, sg) => (Nat.eqb w sz) && Bool.eqb sg (negb uns) | None => false end
  | _, _, _ => false
  end.
Definition only_integers_decode (kv : string * (nat * bool)) : bool := mem (fst kv) uint_types || mem (fst kv) int_types.

Definition C12_tables_statement : Prop :=
  (forall p, In p primitive_types -> has_template p = true) /\
  (forall kv, In kv fixed_size_types -> size_agrees kv = true /\ mem (fst kv) primitive_types = true) /\
  (forall p, In p (uint_types ++ int_types) -> enum_base_ok p = true) /\
  (forall kv, In kv decode_integer_type -> only_integers_decode kv = true).

Theorem C12_tables : C12_tables_statement.
Proof.
  split; [|split; [|split]].
  - apply forallb_forall. vm_compute. reflexivity.
  - intros kv H.
    assert (A : forallb (fun kv => size_agrees kv && mem (fst kv) primitive_types) fixed_size_types = true) by (vm_compute; reflexivity).
    pose proof (proj1 (forallb_forall _ _) A kv H) as B. apply andb_true_iff in B. exact B.
  - apply forallb_forall. vm_compute. reflexivity.
  - apply forallb_forall. vm_compute. reflexivity.
Qed.

(* non-vacuity: the tables are the real ones *)
Example C12_tables_witness : length primitive_types = 14 /\ lookup "guid" fixed_size_types = Some 16 /\ lookup "int16" decode_integer_type = Some (16, false).
Proof. repeat split. Qed.

Print Assumptions C12_tables.

(* Map keys.  The generator has key readers and writers for primitive types only.  (a) For EVERY input, whatever File the parser
   model returns has only primitive map keys, at every depth of every field type of every struct, message and union branch
   (front/ParseTypeWf.v, a postcondition through the parser's monadic code).  (b) The parser model's notion of "primitive"
   (Parse.is_primitive, hand-written) is exactly the source's primitiveTypes table as translator T2 regenerates it. *)
Require Import Bebop.front.Tok Bebop.front.Parse Bebop.front.ParseWf Bebop.front.ParseTypeWf.
From Coq Require Import Ascii NArith.
Definition bytes_of_string (s : string) : list N := map (fun a => N.of_nat (nat_of_ascii a)) (list_ascii_of_string s).
Definition C12_keys_statement : Prop :=
  (forall input fails f s, read_file input fails = POk f s -> file_twf f) /\
  (forall p, In p primitive_types -> is_primitive (bytes_of_string p) = true) /\
  (forall b, is_primitive b = true -> In b (map bytes_of_string primitive_types)).
Theorem C12_keys : C12_keys_statement.
Proof.
  split; [exact read_file_twf|]. split.
  - apply forallb_forall. vm_compute. reflexivity.
  - intros b H.
    assert (E : existsb (fun p => beq p b) (map bytes_of_string primitive_types) = true).
    { revert H. unfold is_primitive, is_uint_prim, is_int_prim, is_float_prim, beq.
      repeat match goal with |- context [list_eq_dec N.eq_dec b ?w] => destruct (list_eq_dec N.eq_dec b w) as [->|_]; [intros _; vm_compute; reflexivity|] end.
      cbn. discriminate. }
    apply existsb_exists in E. destruct E as (p & Hin & Ep). unfold beq in Ep. destruct (list_eq_dec N.eq_dec p b); [subst; exact Hin|discriminate].
Qed.
Print Assumptions C12_keys.
