(* A concrete non-trivial schema and value used by the non-vacuity examples of the wire properties. *)
Require Import Bebop.wire.Wire Bebop.wire.ByteDec Bebop.wire.ByteDecFacts.

(* struct 1 { int32; string }   message 2 { 1 -> struct 1; 2 -> int32[]; [deprecated] 3 -> bool; 4 -> message 2 }
   union 3 { 1 -> struct 1; 2 -> message 2 }   struct 4 { union 3; map[string, guid]; date } *)
Definition ex_schema : schema := fun n =>
  match n with
  | 1 => Some (DStruct [TPrim PInt32; TPrim PString])
  | 2 => Some (DMsg [(1, TRef 1); (2, TArr (TPrim PInt32)); (3, TPrim PBool); (4, TRef 2)] [3])
  | 3 => Some (DUnion [(1, 1); (2, 2)])
  | 4 => Some (DStruct [TRef 3; TMap PString (TPrim PGuid); TPrim PDate])
  | _ => None
  end%N.

Definition ex_value : value :=
  VStruct [ VUnion 2 (VMsg [Some (VStruct [VZ (-7); VS [104; 105]]); Some (VArr [VZ 1; VZ (-2147483648)]); None;
                            Some (VMsg [None; Some (VArr []); None; None])]);
            VMap [(VS [107], VS [0;1;2;3;4;5;6;7;8;9;10;11;12;13;14;15])];
            VZ 16725225600000000 ]%N.

Lemma ex_schema_wf : schema_wf ex_schema.
Proof.
  intros n fs deps. unfold ex_schema.
  destruct n as [|p]; [discriminate|].
  destruct p as [[[]|[]|]|[[]|[]|]|]; try discriminate.
  intros [= <- <-]. split.
  - cbn. repeat constructor; cbn; intuition discriminate.
  - cbn. intuition discriminate.
Qed.

Definition ex_bytes : bytes := match enc ex_schema (TRef 4) ex_value with Some b => b | None => [] end.
Example ex_encodes : enc ex_schema (TRef 4) ex_value = Some ex_bytes /\ length ex_bytes = 78.
Proof. split; vm_compute; reflexivity. Qed.
