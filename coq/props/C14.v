(* C14: parsing, validating, generating and formatting are pure and repeatable - partial by nature (no scheduler model).
   What is modelled: the write footprint of Generate's appends onto the slices of the File it received by value. *)
Require Import Bebop.sys.Sys Bebop.sys.Appends Bebop.gen.GenAppends.
From Coq Require Import List.
Import ListNotations.

(* when the slices are clipped (or copied) before appending, no backing array the caller can reach is ever written,
   whatever lengths and capacities the caller's slices have *)
Definition C14_footprint_statement : Prop :=
  forall ss ns fresh, (forall s, In s ss -> base s < fresh) ->
    forall b, In b (gen_writes true ss ns fresh) -> ~ In b (caller_arrays ss).
Theorem C14_footprint : C14_footprint_statement.
Proof. exact C14_footprint_fixed. Qed.

(* without the clip the statement is false: len 3, cap 4, one appended element is written into the caller's array *)
Example C14_refuted_without_clip :
  In 7 (gen_writes false [{| base := 7; len := 3; cap := 4 |}] [1] 100) /\ In 7 (caller_arrays [{| base := 7; len := 3; cap := 4 |}]).
Proof. split; cbn; auto. Qed.
Print Assumptions C14_footprint.

(* The same for what the code does TODAY, as translator T5 reads it off func (f File) Generate on every run
   (gen/GenAppends.v): for each receiver slice, how many append statements there are and whether the slice is cut down to
   cap = len before every one of them.  Each slice takes a SEQUENCE of appends of any sizes. *)
Definition C14_appends_statement : Prop :=
  forallb (fun e => snd e) generate_appends = true /\
  forall ss nss fresh, (forall s, In s ss -> base s < fresh) ->
    forall b, In b (gen_writes_seq (map (fun e => snd e) generate_appends) ss nss fresh) -> ~ In b (caller_arrays ss).
Theorem C14_appends : C14_appends_statement.
Proof.
  assert (H : forallb (fun e : String.string * nat * bool => snd e) generate_appends = true) by (vm_compute; reflexivity).
  split; [exact H|]. intros ss nss fresh Hf. apply footprint_seq; [|exact Hf].
  rewrite forallb_forall in *. intros c Hc. apply in_map_iff in Hc. destruct Hc as (e & <- & He). exact (H e He).
Qed.
Print Assumptions C14_appends.
