(* C14: parsing, validating, generating and formatting are pure and repeatable - partial by nature (no scheduler model).
   What is modelled: the write footprint of Generate's appends onto the slices of the File it received by value. *)
Require Import Bebop.sys.Sys.
From Coq Require Import List.
Import ListNotations.

(* when the slices are clipped (or copied) before appending, no backing array the caller can reach is ever written,
   whatever lengths and capacities the caller's slices have *)
Definition C14_footprint_statement : Prop :=
  forall ss ns fresh, (forall s, In s ss -> base s < fresh) ->
    forall b, In b (gen_writes true ss ns fresh) -> ~ In b (caller_arrays ss).
Theorem C14_footprint : C14_footprint_statement.
Proof. exact C14_footprint_fixed. Qed.

(* without the clip the statement is false: len 3, cap 4, one appended element is written into the caller's array *)
Example C14_refuted_without_clip :
  In 7 (gen_writes false [{| base := 7; len := 3; cap := 4 |}] [1] 100) /\ In 7 (caller_arrays [{| base := 7; len := 3; cap := 4 |}]).
Proof. split; cbn; auto. Qed.
Print Assumptions C14_footprint.
