(* C02: all encoders emit the same bytes and Size() is their exact length; MarshalBebopTo returns it and never writes
   outside the first Size() bytes, whatever the buffer held before. *)
Require Import Bebop.wire.Wire Bebop.wire.WireFacts Bebop.wire.Encoders Bebop.wire.EncodersFacts Bebop.props.WireExample.

(* [a] = what the generated encoders emit (genc: deprecated fields skipped; map entries in the value's iteration order) *)
Definition C02_statement : Prop :=
  forall s t v a, genc s t v = Some a ->
    (* Size() is the exact length *)
    size s t v = length a /\
    (* MarshalBebopTo, ANY prior contents, buffer at least Size() long: the encoding, then the old bytes untouched; returns Size() *)
    (forall buf, length a <= length buf -> mto s true t v buf 0 = Some (a ++ skipn (length a) buf, length a)) /\
    (* EncodeBebop to a writer that does not fail: exactly the same bytes, nil error, every enclosing method ran to its end *)
    (forall w, werr w = false -> exists k, senc nofault s t v w = ({| out := out w ++ a; calls := calls w + k; werr := false |}, false)).

Theorem C02 : C02_statement.
Proof.
  intros s t v a G. split; [exact (L1_gen s v t a G)|]. split.
  - intros buf Hb. exact (C02_buffer s v t a buf G Hb).
  - exact (L3 s v t a G).
Qed.

(* the statement is false when the message terminator is not written (the code before fix 5a1d366): a dirty buffer keeps its byte *)
Example C02_refuted_without_terminator :
  mto ex_schema false (TRef 2) (VMsg [None; None; None; None]) [255; 255; 255; 255; 255; 255]%N 0 = Some ([1; 0; 0; 0; 255; 255]%N, 5) /\
  mto ex_schema true (TRef 2) (VMsg [None; None; None; None]) [255; 255; 255; 255; 255; 255]%N 0 = Some ([1; 0; 0; 0; 0; 255]%N, 5).
Proof. split; vm_compute; reflexivity. Qed.

Example C02_witness : genc ex_schema (TRef 4) ex_value = Some ex_bytes /\ size ex_schema (TRef 4) ex_value = 78.
Proof. split; vm_compute; reflexivity. Qed.

Print Assumptions C02.
