(* C06: truncated input is reported as an error, never a crash. *)
Require Import Bebop.wire.Wire Bebop.wire.WireFacts Bebop.wire.ByteDec Bebop.wire.ByteDecFacts Bebop.wire.StreamDec Bebop.wire.FaultFacts Bebop.props.WireExample.

(* the full property on the model: every strict prefix, both decoders, result Err (not Ok, not Panic, not Excess) *)
Definition C06_byte_statement : Prop :=
  forall s, schema_wf s -> forall t v a, enc s t v = Some a ->
    exists f0, forall fuel, f0 <= fuel -> forall k, k < length a ->
      (forall r, dec3 s {| safe := true; lim := None |} fuel t (firstn k a) <> Ok r) /\
      no_panic (dec3 s {| safe := true; lim := None |} fuel t (firstn k a)).

(* UnmarshalBebop half: a strict prefix of an encoding never decodes successfully (prefix stability L7 + round trip) and
   never panics (checked_decoder_never_panics). *)
Theorem C06_byte : C06_byte_statement.
Proof.
  intros s Hwf t v a E. destruct (C06_byte s {| safe := true; lim := None |} Hwf eq_refl v t a E) as [f0 H].
  exists f0. intros fuel Hf k Hk. split; [exact (H fuel Hf k Hk)|]. now apply checked_decoder_never_panics.
Qed.

Example C06_witness : forall k, k < 78 ->
  dec3 ex_schema {| safe := true; lim := None |} 20 (TRef 4) (firstn k ex_bytes) = Err.
Proof.
  intros k Hk. do 78 (destruct k as [|k]; [vm_compute; reflexivity|]). lia.
Qed.

Print Assumptions C06_byte.

(* DecodeBebop half: the reader delivers the first k < length a bytes of an encoding - in chunks of ANY sizes, under ANY
   enclosing limits that lie beyond them - and then fails.  The decoder returns (it does not panic, does not ask for memory
   out of proportion, does not run out of fuel) and the ErrorReader's latch is set: DecodeBebop's result is r.Err, an error.
   Hypotheses: message indices are distinct and non-zero (schema_wf, what the parser guarantees), and a union that declares
   a branch 0 leads to finitely nested records (union0_ok; vacuous for unions numbered from 1, as in every schema of the
   repository).  The allocation bound of the property ("in proportion") is decided by lib/c06.py against the executable model. *)
Definition C06_stream_statement : Prop := truncation_statement.
Theorem C06_stream : C06_stream_statement.
Proof. exact truncation_holds. Qed.

Lemma ex_union0_ok : union0_ok ex_schema.
Proof.
  intros n brs j m. unfold ex_schema.
  destruct n as [|p]; [discriminate|].
  destruct p as [[[]|[]|]|[[]|[]|]|]; try discriminate.
  intros [= <-]. cbn. discriminate.
Qed.

(* the hypotheses are met by the example schema, and the conclusion is seen on every one of its 78 cut points under a
   ragged read schedule *)
Example C06_stream_witness : forall k, k < 78 ->
  match sdec ex_schema None 20 (TRef 4) (truncated ex_bytes k [3; 1; 2; 7; 1] []) with Ok (_, r') => err r' | _ => false end = true.
Proof.
  intros k Hk. do 78 (destruct k as [|k]; [vm_compute; reflexivity|]). lia.
Qed.

Print Assumptions C06_stream.
