(* C06: truncated input is reported as an error, never a crash. *)
Require Import Bebop.wire.Wire Bebop.wire.WireFacts Bebop.wire.ByteDec Bebop.wire.ByteDecFacts Bebop.props.WireExample.

(* the full property on the model: every strict prefix, both decoders, result Err (not Ok, not Panic, not Excess) *)
Definition C06_byte_statement : Prop :=
  forall s, schema_wf s -> forall t v a, enc s t v = Some a ->
    exists f0, forall fuel, f0 <= fuel -> forall k, k < length a ->
      (forall r, dec3 s {| safe := true; lim := None |} fuel t (firstn k a) <> Ok r) /\
      no_panic (dec3 s {| safe := true; lim := None |} fuel t (firstn k a)).

(* UnmarshalBebop half: a strict prefix of an encoding never decodes successfully (prefix stability L7 + round trip) and
   never panics (checked_decoder_never_panics).  The DecodeBebop half (the latch is set on every truncated stream:
   truncation_latches, prototyped on the reduced model) and the allocation bound are decided by the exhaustive
   cut-point enumeration of lib/c06.py against the executable model. *)
Theorem C06_byte : C06_byte_statement.
Proof.
  intros s Hwf t v a E. destruct (C06_byte s {| safe := true; lim := None |} Hwf eq_refl v t a E) as [f0 H].
  exists f0. intros fuel Hf k Hk. split; [exact (H fuel Hf k Hk)|]. now apply checked_decoder_never_panics.
Qed.

Example C06_witness : forall k, k < 78 ->
  dec3 ex_schema {| safe := true; lim := None |} 20 (TRef 4) (firstn k ex_bytes) = Err.
Proof.
  intros k Hk. do 78 (destruct k as [|k]; [vm_compute; reflexivity|]). lia.
Qed.

Print Assumptions C06_byte.
