(* C11: the parsed File says exactly what the schema text says.
   front/Tok.v + front/Parse.v are executable ports of tokenize.go, token_tree.go, parse.go, parse_expr.go and eval_expr.go
   (the tokenizer over a model of bufio.Reader; the parser over the precomputed list of Next() results); the correspondence
   check (lib/front.py, check_c10) compares their result with the implementation's on every input and evaluates the
   property directly.  Termination of the MODEL is by construction (structural recursion on fuel); that the fuel the
   driver passes suffices is observed on every run (no FUEL outcome), not yet proved.  Proved so far - the tokenizer's
   behaviour on the token classes the top-level loop dispatches on (for every amount of leading horizontal whitespace): *)
Require Import Bebop.front.Tok Bebop.front.TokInv Bebop.front.LexInv Bebop.front.Parse Bebop.front.ParseInv Bebop.front.FmtInv Bebop.front.MsgInv Bebop.front.GenInv Bebop.front.Items Bebop.front.TyInv Bebop.front.TyMsg Bebop.front.TyItems Bebop.front.TyUnion Bebop.front.TyUnionItem Bebop.front.TyOpcode Bebop.front.TyEnum Bebop.front.TyDep Bebop.front.TyDoc Bebop.front.TyDec Bebop.front.TyImport Bebop.front.TyFDoc Bebop.front.TyFDocM Bebop.front.TyEDoc Bebop.front.TyFDec Bebop.front.TyFEol Bebop.front.TyFVar Bebop.front.TyUDoc Bebop.front.Schema.
From Coq Require Import List NArith ZArith.
Import ListNotations.

Definition C11_partial_statement : Prop :=
  (* a single-byte terminal is recognised after any run of spaces / tabs / CRs, and exactly it is consumed *)
  (forall c k ws r lb lr, term1 c = Some k -> Forall (fun c0 => is_hws c0 = true) ws ->
     exists lb' lr', next (st (ws ++ c :: r) lb lr) = R (Some {| kind := k; concrete := [c] |}) (st r lb' lr')) /\
  (* an identifier or keyword is read up to, and not including, the first non-identifier byte *)
  (forall c tl d ws r lb lr, is_letter c = true -> Forall (fun c0 => is_idc c0 = true) tl -> is_idc d = false ->
     Forall (fun c0 => is_hws c0 = true) ws ->
     exists lb' lr', next (st (ws ++ c :: tl ++ d :: r) lb lr) = R (Some {| kind := keyword (c :: tl); concrete := c :: tl |}) (st (d :: r) lb' lr')).

Theorem C11_partial : C11_partial_statement.
Proof. split; [exact next_term1|exact next_word]. Qed.
Print Assumptions C11_partial.

(* Whole texts.  A text that is a sequence of lexemes - words (identifiers and keywords), single-byte terminals (newline,
   braces, brackets, parentheses, ; , : = | &), the arrow, decimal integer literals, string literals without escapes -
   each preceded by ANY run of horizontal whitespace (spaces, tabs, CRs: CRLF line ends included), is tokenized into
   exactly those tokens, followed by clean end-of-input results and nothing else (lex_inversion).  The parser model is a
   function of that list alone, so for these texts "the result does not depend on horizontal whitespace ... CRLF line
   ends" holds at the only interface through which layout could reach it: two such texts with the same lexemes give the
   same tokens (layout_independent).  Not covered: comments, floats, negative / hex literals, << >>, escapes. *)
Definition C11_lex_statement : Prop :=
  (forall l tail m lb lr,
     Forall (fun p => hws (fst p) /\ lex_ok (snd p)) l -> sep_ok l -> hws tail ->
     next_results (length l + m) (st (render l tail) lb lr) = map (fun p => NT (tok_of (snd p)) []) l ++ repeat (NF []) m) /\
  (forall l l' tail tail', map snd l = map snd l' ->
     Forall (fun p => hws (fst p) /\ lex_ok (snd p)) l -> sep_ok l -> hws tail ->
     Forall (fun p => hws (fst p) /\ lex_ok (snd p)) l' -> sep_ok l' -> hws tail' ->
     exists toks m m', run (render l tail) false = toks ++ repeat (NF []) m /\ run (render l' tail') false = toks ++ repeat (NF []) m').
Theorem C11_lex : C11_lex_statement.
Proof. exact (conj lex_inversion layout_independent). Qed.

(* the hypotheses are met by a real schema text with ragged spacing and CRLF line ends *)
Example C11_lex_witness :
  let sp := [32%N] in let crlf := [13%N] in
  let l := [([], W 115 [116;114;117;99;116]); (sp ++ sp, W 65 []); ([9%N], T1 123 kOpenCu); (crlf, T1 10 kNewline);
            (sp, W 105 [110;116;51;50]); ([9%N; 32%N], W 97 []); ([], T1 59 kSemi); (crlf, T1 10 kNewline);
            ([], Num 49 []); (sp, Arrow); (sp, Str [120]); ([], T1 125 kCloseCu); ([], T1 10 kNewline)]%N in
  Forall (fun p => hws (fst p) /\ lex_ok (snd p)) l /\ sep_ok l /\
  firstn 13 (run (render l []) false) = map (fun p => NT (tok_of (snd p)) []) l.
Proof.
  cbv zeta. split; [repeat constructor|]. split; [cbn; intuition (try discriminate; eauto)|vm_compute; reflexivity].
Qed.
Print Assumptions C11_lex.

(* End to end on a core sub-language.  For EVERY list of struct definitions whose names, field types and field names are
   identifiers that are not keywords (any number of structs and fields, identifiers of any length), and EVERY way of
   putting horizontal whitespace - spaces, tabs, CRs, hence CRLF line ends and any indentation - in front of the tokens of
   the one-field-per-line text, ReadFile (tokenizer and parser models together, with the fuel the driver passes) returns
   exactly the File the text states: the structs in source order, each with its fields in order, nothing else (blank lines between definitions allowed), no
   attribute leaking from one definition to the next.  (front/ParseInv.v: tokenizer inversion, then the parser stepped
   symbolically over the token list with an induction over fields and over definitions.)  Messages, enums, unions, consts,
   container types, attributes and comments are decided by the run against the expected dump. *)
Definition C11_structs_statement : Prop :=
  forall sl l tail,
    Forall sdef_ok sl -> map snd l = schema_lex sl ->
    Forall (fun p => hws (fst p)) l -> sep_ok l -> hws tail ->
    exists s', read_file (render l tail) false = POk (file_of sl) s'.
Theorem C11_structs : C11_structs_statement.
Proof. exact read_structs. Qed.

(* the hypotheses are met: two structs, ragged spacing, CRLF line ends *)
Example C11_structs_witness :
  let A := {| ic := 65%N; itl := [] |} in let B := {| ic := 66%N; itl := [98%N] |} in
  let i32 := {| ic := 105%N; itl := [110; 116; 51; 50]%N |} in let x := {| ic := 120%N; itl := [] |} in let y := {| ic := 121%N; itl := [49; 95]%N |} in
  let sl := [(A, [(i32, x); (B, y)], 1); (B, [], 0)] in
  let sp := [32%N] in let cr := [13%N] in
  let ws := [[]; sp; sp ++ sp; cr;  [9%N]; sp; []; cr;  [9; 32]%N; [9%N]; sp; cr;  []; cr;  cr;   []; sp; []; cr; []; []] in
  let l := combine ws (schema_lex sl) in
  Forall sdef_ok sl /\ map snd l = schema_lex sl /\ Forall (fun p => hws (fst p)) l /\ sep_ok l /\
  exists s', read_file (render l [32; 13]%N) false = POk (file_of sl) s'.
Proof.
  cbv zeta. split; [repeat constructor|]. split; [reflexivity|]. split; [repeat constructor|].
  split; [cbn; intuition (try discriminate; eauto)|]. eexists. vm_compute. reflexivity.
Qed.
Print Assumptions C11_structs.

(* The same with MESSAGES: a schema is any sequence of struct and message definitions; message indices are any decimal
   literals that denote 1 .. 255 (parse_uint, leading zeros and all), distinct within a message.  For EVERY such schema
   and EVERY layout, ReadFile returns exactly the File the text states: structs and messages each in source order, every
   field with its index, type and name, nothing attached to the wrong definition (front/MsgInv.v). *)
Definition C11_records_statement : Prop :=
  forall dl l tail,
    Forall defn_ok dl -> map snd l = defs_lex dl -> Forall (fun p => hws (fst p)) l -> sep_ok l -> hws tail ->
    exists s', read_file (render l tail) false = POk (dfile_of dl) s'.
Theorem C11_records : C11_records_statement.
Proof. exact read_defs. Qed.

Example C11_records_witness :
  let A := {| ic := 65%N; itl := [] |} in let M := {| ic := 77%N; itl := [115%N] |} in
  let i32 := {| ic := 105%N; itl := [110; 116; 51; 50]%N |} in let x := {| ic := 120%N; itl := [] |} in let y := {| ic := 121%N; itl := [] |} in
  let one := {| xc := 49%N; xds := []; xv := 1%N |} in let n200 := {| xc := 50%N; xds := [48; 48]%N; xv := 200%N |} in
  let dl := [DM M [(n200, (i32, x)); (one, (A, y))] 1; DS A [(i32, x)] 0] in
  let l := dlayout dl in
  Forall defn_ok dl /\ map snd l = defs_lex dl /\ Forall (fun p => hws (fst p)) l /\ sep_ok l /\
  exists s', read_file (render l []) false = POk (dfile_of dl) s'.
Proof.
  cbv zeta. split; [repeat constructor; cbn; intuition discriminate|]. split; [apply dlayout_lex|]. split; [apply dlayout_hws|].
  split; [apply dlayout_sep|]. eexists. vm_compute. reflexivity.
Qed.
Print Assumptions C11_records.

(* And with ENUMS and CONTAINER TYPES, through the item framework of front/GenInv.v (each kind of definition contributes its
   tokens, what it adds to the File and one step lemma for the top-level loop; front/Items.v and front/TyItems.v have the
   instances; front/TyUnion.v + front/TyUnionItem.v the union): a schema is any sequence of import lines (front/TyImport.v), struct, readonly struct, message,
   enum and (non-empty) union definitions, union branches being structs or messages under distinct indices, structs and messages
   optionally under an [opcode(..)] line (front/TyOpcode.v), enums optionally with a declared integer base type (front/TyEnum.v), message fields
   optionally under a [deprecated("reason")] line (front/TyDep.v), structs and messages optionally under `//` doc comment lines (front/TyDoc.v), struct and message FIELDS optionally under `//` doc comment lines - which also give the field its tags - and then a [deprecated(..)] line (front/TyFDoc.v, front/TyFDocM.v), and likewise the MEMBERS of an enum (front/TyEDoc.v) and of a union (front/TyUDoc.v), enum values and integer opcodes decimal or 0x-hexadecimal literals (front/LexInv.v: next_hexnumber), struct fields optionally followed on their line by a `//` comment, which belongs to no definition (front/TyFEol.v);
   a field type is an
   identifier, array[T], map[K, V] with a primitive key, or any of those followed by any number of [] - nested to ANY depth
   (front/TyInv.v: read_field_type on the tokens of a type expression, by induction on the expression); enums untyped,
   members with plain decimal values; the readonly marker lands on the struct it precedes and on no other.  For EVERY such
   schema and EVERY layout ReadFile returns the File the text states, which schema_file_spec writes out: each kind of
   definition in source order, field types as the expression's structure says (ft_of), nothing else. *)
Definition C11_schema_statement : Prop :=
  (forall dl lay tail,
     Forall sdefn_ok dl -> map snd lay = schema_lexemes dl -> Forall (fun p => hws (fst p)) lay -> sep_ok lay -> hws tail ->
     exists s', read_file (render lay tail) false = POk (schema_file dl) s') /\
  (forall dl,
     structs (schema_file dl) = flat_map structs_of dl /\
     messages (schema_file dl) = flat_map messages_of dl /\
     enums (schema_file dl) = flat_map enums_of dl /\
     unions (schema_file dl) = flat_map unions_of dl /\ consts (schema_file dl) = [] /\ imports (schema_file dl) = flat_map imports_of dl /\ gopackage (schema_file dl) = []) /\
  (forall path k, imports_of (SImport path k) = [path]) /\
  (* what the pieces are *)
  (forall nm bl k, unions_of (SUnion nm bl k) =
     [{| un_name := ibytes nm; un_comment := []; un_opcode := 0;
         un_fields := map (fun b => match b with
                                    | LUs x bn fl => (xv x, {| u_msg := None; u_struct := Some (tstruct_of (ibytes bn) (map btf fl)); u_tags := []; u_depmsg := []; u_dep := false |})
                                    | LUm x bn fl => (xv x, {| u_msg := Some (tmessage_of (ibytes bn) (map btm fl)); u_struct := None; u_tags := []; u_depmsg := []; u_dep := false |})
                                    end) bl |}]) /\
  (forall nm fl k, structs_of (SStruct nm fl k) =
     [{| s_name := ibytes nm; s_comment := []; s_opcode := 0; s_readonly := false;
         s_fields := map (fun f => {| f_type := ft_of (bty (fst f)); f_name := ibytes (snd f); f_comment := []; f_tags := []; f_depmsg := []; f_dep := false |}) fl |}]) /\
  (forall nm fl k, structs_of (SReadonly nm fl k) =
     [{| s_name := ibytes nm; s_comment := []; s_opcode := 0; s_readonly := true;
         s_fields := map (fun f => {| f_type := ft_of (bty (fst f)); f_name := ibytes (snd f); f_comment := []; f_tags := []; f_depmsg := []; f_dep := false |}) fl |}]) /\
  (forall nm fl k, messages_of (SMessage nm fl k) =
     [{| m_name := ibytes nm; m_comment := []; m_opcode := 0;
         m_fields := map (fun f => (xv (fst f), {| f_type := ft_of (bty (fst (snd f))); f_name := ibytes (snd (snd f)); f_comment := []; f_tags := []; f_depmsg := []; f_dep := false |})) fl |}]) /\
  (* a struct or message under an [opcode(..)] line carries the opcode: the number a decimal literal denotes, or the four
     characters of a string literal little-endian *)
  (forall op nm fl k, structs_of (SOpStruct op nm fl k) = [tstruct_of_opc (ol_val (bol op)) (ibytes nm) (map btf fl)]) /\
  (forall op nm fl k, messages_of (SOpMessage op nm fl k) = [tmessage_of_opc (ol_val (bol op)) (ibytes nm) (map btm fl)]) /\
  (forall x, ol_val (bol (LNum x)) = xv x) /\
  (forall a b c d, ol_val (bol (LStr a b c d)) = (a + 256 * b + 65536 * c + 16777216 * d)%N) /\
  (* a message field under a [deprecated("reason")] line is marked deprecated and carries the reason; the others are not *)
  (forall nm fl k, messages_of (SDMessage nm fl k) =
     [{| m_name := ibytes nm; m_comment := []; m_opcode := 0;
         m_fields := map (fun f => (xv (fst (snd f)),
                                    {| f_type := ft_of (bty (fst (snd (snd f)))); f_name := ibytes (snd (snd (snd f))); f_comment := []; f_tags := [];
                                       f_depmsg := match fst f with Some b => b | None => [] end;
                                       f_dep := match fst f with Some _ => true | None => false end |})) fl |}]) /\
  (* `//` comment lines before a struct or a message are its comment: the lines joined by newlines *)
  (forall cs nm fl k, structs_of (SDocStruct cs nm fl k) = [tstruct_of_cm (join_nl cs) (ibytes nm) (map btf fl)]) /\
  (forall cs nm fl k, messages_of (SDocMessage cs nm fl k) = [tmessage_of_cm (join_nl cs) (ibytes nm) (map btm fl)]) /\
  (* `//` comment lines before a struct FIELD are that field's comment - the lines joined by newlines - and nobody else's; a
     [deprecated("reason")] line may follow them;
     each line of the shape [tag(key:"value")] / [tag(key)] is also one of its tags, in order (parse_tag decides, line by line) *)
  (forall nm fl k, structs_of (SFDocStruct nm fl k) =
     [{| s_name := ibytes nm; s_comment := []; s_opcode := 0; s_readonly := false;
         s_fields := map (fun f => {| f_type := ft_of (bty (fst (snd (snd f)))); f_name := ibytes (snd (snd (snd f))); f_comment := join_nl (fst f);
                                      f_tags := fold_left (fun tags c => match parse_tag c with Some t => tags ++ [t] | None => tags end) (fst f) [];
                                      f_depmsg := match fst (snd f) with Some b => b | None => [] end;
                                      f_dep := match fst (snd f) with Some _ => true | None => false end |}) fl |}]) /\
  (* likewise before a message field, where a [deprecated("reason")] line may follow the comment lines *)
  (forall nm fl k, messages_of (SFDocMessage nm fl k) =
     [{| m_name := ibytes nm; m_comment := []; m_opcode := 0;
         m_fields := map (fun f => (xv (fst (snd (snd f))),
                                    {| f_type := ft_of (bty (fst (snd (snd (snd f))))); f_name := ibytes (snd (snd (snd (snd f)))); f_comment := join_nl (fst f);
                                       f_tags := fold_left (fun tags c => match parse_tag c with Some t => tags ++ [t] | None => tags end) (fst f) [];
                                       f_depmsg := match fst (snd f) with Some b => b | None => [] end;
                                       f_dep := match fst (snd f) with Some _ => true | None => false end |})) fl |}]) /\
  (* and before a member of a typed enum: the member's comment, its deprecation *)
  (forall nm tname uns bits ml k, enums_of (SFDocEnum nm tname uns bits ml k) =
     [{| e_name := ibytes nm; e_comment := []; e_simple := ibytes tname; e_unsigned := uns;
         e_opts := map (fun m => {| o_name := ibytes (fst (snd (snd m))); o_comment := join_nl (fst m);
                                    o_depmsg := match fst (snd m) with Some b => b | None => [] end;
                                    o_value := if uns then 0%Z else Z.of_N (xv (snd (snd (snd m))));
                                    o_uvalue := if uns then xv (snd (snd (snd m))) else 0%N;
                                    o_dep := match fst (snd m) with Some _ => true | None => false end |}) ml |}]) /\
  (* the same documented bodies in a readonly struct and in an enum without a declared base type (members read as uint32) *)
  (forall nm fl k, structs_of (SFDocRoStruct nm fl k) = [{| s_name := ibytes nm; s_comment := []; s_fields := s_fields (cstruct_of (ibytes nm) (map bcf fl)); s_opcode := 0; s_readonly := true |}]) /\
  (forall nm ml k, enums_of (SFDocUEnum nm ml k) = [{| e_name := ibytes nm; e_comment := []; e_opts := e_opts (cenum_of (ibytes nm) [] true (map bce ml)); e_simple := s_uint32; e_unsigned := true |}]) /\
  (* `//` comment lines before a union member are the comment of that member's struct / message and give the member its tags; a
     [deprecated("reason")] line may follow them - after members whose bodies span lines too (the defect repaired by 4fdef8a) *)
  (forall nm bl k, unions_of (SFDocUnion nm bl k) =
     [{| un_name := ibytes nm; un_comment := []; un_opcode := 0;
         un_fields := map (fun b =>
           let tags := fold_left (fun tags c => match parse_tag c with Some t => tags ++ [t] | None => tags end) (fst b) [] in
           let dm := match fst (snd b) with Some x => x | None => [] end in let dp := match fst (snd b) with Some _ => true | None => false end in
           match snd (snd b) with
           | LUs x bn fl => (xv x, {| u_msg := None; u_struct := Some {| s_name := ibytes bn; s_comment := join_nl (fst b); s_fields := map tfield_of (map btf fl); s_opcode := 0; s_readonly := false |};
                                      u_tags := tags; u_depmsg := dm; u_dep := dp |})
           | LUm x bn fl => (xv x, {| u_msg := Some {| m_name := ibytes bn; m_comment := join_nl (fst b); m_fields := map tmfield_of (map btm fl); m_opcode := 0 |}; u_struct := None;
                                      u_tags := tags; u_depmsg := dm; u_dep := dp |})
           end) bl |}]) /\
  (* a `//` comment AFTER a field, on the field's line, belongs to no definition: the File is that of the struct without it *)
  (forall nm fl k, structs_of (SEolStruct nm fl k) = [tstruct_of (ibytes nm) (map (fun f => btf (fst f)) fl)]) /\
  (* ANY sequence of `//` comment lines and opcode lines before a struct, readonly struct, message (fields possibly
     deprecated), union or typed enum (front/TyDec.v; enums take no opcode line): the definition's comment is the comment
     lines joined by newlines, its opcode that of the LAST opcode line (0 if there is none) *)
  (forall P nm fl k, structs_of (SDec P (BStruct nm fl) k) = [gstruct_of (dec_cmt P) (dec_opc P) false (ibytes nm) (map btf fl)]) /\
  (forall P nm fl k, structs_of (SDec P (BRoStruct nm fl) k) = [gstruct_of (dec_cmt P) (dec_opc P) true (ibytes nm) (map btf fl)]) /\
  (forall P nm fl k, messages_of (SDec P (BMessage nm fl) k) = [gmessage_of (dec_cmt P) (dec_opc P) (ibytes nm) (map btm fl)]) /\
  (forall P nm fl k, messages_of (SDec P (BDMessage nm fl) k) = [gdmessage_of (dec_cmt P) (dec_opc P) (ibytes nm) (map bdf fl)]) /\
  (forall P nm bl k, unions_of (SDec P (BUnion nm bl) k) = [gunion_of (dec_cmt P) (dec_opc P) (ibytes nm) (map bub bl)]) /\
  (forall P nm tname uns bits ml k, enums_of (SDec P (BEnum nm tname uns bits ml) k) = [genum_of (dec_cmt P) (ibytes nm) (ibytes tname) uns (map bem ml)]) /\
  (* ... and the same before a struct / message / typed enum whose fields / members carry their own comment lines, tags and
     deprecations (front/TyFDec.v): the fully documented definition *)
  (forall P nm fl k, structs_of (SDec P (BFStruct nm fl) k) = [gcstruct_of (dec_cmt P) (dec_opc P) (ibytes nm) (map bcf fl)]) /\
  (forall P nm fl k, messages_of (SDec P (BFMessage nm fl) k) = [gcmessage_of (dec_cmt P) (dec_opc P) (ibytes nm) (map bcm fl)]) /\
  (forall P nm tname uns bits ml k, enums_of (SDec P (BFEnum nm tname uns bits ml) k) = [gcenum_of (dec_cmt P) (ibytes nm) (ibytes tname) uns (map bce ml)]) /\
  (forall P nm fl k, structs_of (SDec P (BFRoStruct nm fl) k) = [gcrostruct_of (dec_cmt P) (dec_opc P) (ibytes nm) (map bcf fl)]) /\
  (forall P nm ml k, enums_of (SDec P (BFUEnum nm ml) k) = [gcuenum_of (dec_cmt P) (ibytes nm) (map bce ml)]) /\
  (forall cmt oc nm fl, gcrostruct_of cmt oc nm fl = {| s_name := nm; s_comment := cmt; s_fields := s_fields (cstruct_of nm fl); s_opcode := oc; s_readonly := true |}) /\
  (forall cmt nm ml, gcuenum_of cmt nm ml = {| e_name := nm; e_comment := cmt; e_opts := e_opts (cenum_of nm [] true ml); e_simple := s_uint32; e_unsigned := true |}) /\
  (forall P nm bl k, unions_of (SDec P (BFUnion nm bl) k) = [gcunion_of (dec_cmt P) (dec_opc P) (ibytes nm) (map bcub bl)]) /\
  (forall cmt oc nm bl, gcunion_of cmt oc nm bl = {| un_name := nm; un_comment := cmt; un_fields := un_fields (cunion_of nm bl); un_opcode := oc |}) /\
  (forall cmt oc nm fl, gcstruct_of cmt oc nm fl = {| s_name := nm; s_comment := cmt; s_fields := s_fields (cstruct_of nm fl); s_opcode := oc; s_readonly := false |}) /\
  (forall cmt oc nm fl, gcmessage_of cmt oc nm fl = {| m_name := nm; m_comment := cmt; m_fields := m_fields (cmessage_of nm fl); m_opcode := oc |}) /\
  (forall cmt nm tname uns ml, gcenum_of cmt nm tname uns ml = {| e_name := nm; e_comment := cmt; e_opts := e_opts (cenum_of nm tname uns ml); e_simple := tname; e_unsigned := uns |}) /\
  (forall b P, dec_cmt (LDoc b :: P) = join_nl (pcm (map bp P) [b])) /\ (forall l P, dec_cmt (LOpc l :: P) = dec_cmt P) /\ dec_cmt [] = [] /\
  (forall P b, dec_opc (P ++ [LDoc b]) = dec_opc P) /\ (forall P l, dec_opc (P ++ [LOpc l]) = ol_val (bol l)) /\ dec_opc [] = 0%N /\
  (* an enum with a declared base type has that type, its signedness, and members read at its width *)
  (forall nm tname uns bits ml k, enums_of (STEnum nm tname uns bits ml k) =
     [{| e_name := ibytes nm; e_comment := []; e_simple := ibytes tname; e_unsigned := uns;
         e_opts := map (fun m => if uns then {| o_name := ibytes (fst m); o_comment := []; o_depmsg := []; o_value := 0%Z; o_uvalue := xv (snd m); o_dep := false |}
                                 else {| o_name := ibytes (fst m); o_comment := []; o_depmsg := []; o_value := Z.of_N (xv (snd m)); o_uvalue := 0%N; o_dep := false |}) ml |}]) /\
  (* and what a type expression denotes: the identifier, array or map, wrapped in one array per [] *)
  (forall i n, ft_of (bty (LSimple i n)) = wrap n (FSimple (ibytes i))) /\
  (forall t n, ft_of (bty (LArray t n)) = wrap n (FArray (ft_of (bty t)))) /\
  (forall k v n, ft_of (bty (LMap k v n)) = wrap n (FMap (ibytes k) (ft_of (bty v)))).
Lemma Forall_map' (dl : list sdefn) : Forall sdefn_ok dl -> Forall xel_ok (map xel_of dl).
Proof. induction 1; cbn [map]; constructor; [now apply xel_of_ok|assumption]. Qed.
Theorem C11_schema : C11_schema_statement.
Proof.
  split; [|split; [exact schema_file_spec|]].
  - intros dl lay tail H1 H2 H3 H4 H5.
    destruct (schema_laws dl lay tail H1 H2 H3 H4 H5) as (y & _ & _ & _ & _ & Hr). exact Hr.
  - repeat match goal with |- _ /\ _ => split end; intros;
      unfold unions_of, union_of, structs_of, messages_of, enums_of, tstruct_of, tstruct_of_ro, tmessage_of, tenum_of, dmessage_of, dec_cmt, dec_opc, popc, cunion_of, cstruct_of, cstruct_of_ro, cuenum_of, cmessage_of, cenum_of, estruct_of, efield_of, bef; rewrite ?map_map, ?map_app, ?fold_left_app; try reflexivity.
    + do 2 f_equal. apply map_ext. intros [x bn fl0|x bn fl0]; reflexivity.
    + unfold cmember_opt, bce, bem. do 2 f_equal. apply map_ext. intros m. cbn [fst snd]. destruct uns; reflexivity.
    + do 2 f_equal. apply map_ext. intros [cs [d [x bn fl0|x bn fl0]]]; reflexivity.
Qed.
(* the hypotheses are met (two imports, an enum, a readonly struct with a map of arrays, a message with nested containers, a union, a message and a struct under opcode lines, an int16 enum, a message with a deprecated field, a struct under two comment lines, a union under comment / opcode / comment / opcode lines, a byte enum under a comment line, an empty struct, a struct with a field under a comment line and two tag lines and a deprecated field, a message with a commented deprecated field, a uint8 enum with a commented member and a deprecated one, a struct under a comment line and an opcode line whose field has its own comment line, a struct with an end-of-line comment after a field, an enum without base type with a commented member, a readonly struct with a deprecated field, a union whose second member - after a member spanning lines - carries a comment line, a tag line and a deprecation, a uint8 enum with the hexadecimal value 0x1F;
   blank lines), and the conclusion computed *)
Example C11_schema_witness :
  let E := {| ic := 69%N; itl := [] |} in let R := {| ic := 82%N; itl := [111%N] |} in let M := {| ic := 77%N; itl := [] |} in
  let S := {| ic := 83%N; itl := [] |} in let A := {| ic := 65%N; itl := [] |} in let B := {| ic := 66%N; itl := [] |} in
  let i32 := {| ic := 105%N; itl := [110; 116; 51; 50]%N |} in let x := {| ic := 120%N; itl := [] |} in let y := {| ic := 121%N; itl := [] |} in
  let str := {| ic := 115%N; itl := [116; 114; 105; 110; 103]%N |} in
  let hex1f := {| xc := 48%N; xds := [120; 49; 70]%N; xv := 31%N |} in
  let one := {| xc := 49%N; xds := []; xv := 1%N |} in let n200 := {| xc := 50%N; xds := [48; 48]%N; xv := 200%N |} in
  let dl := [SImport [97; 46; 98; 111; 112]%N 0; SImport [98]%N 2; SEnum E [(A, one); (B, n200)] 1;
             SReadonly R [(LMap str (LArray (LSimple i32 1) 0) 2, x); (LSimple i32 0, y)] 0;
             SMessage M [(n200, (LArray (LMap i32 (LSimple R 0) 0) 1, x)); (one, (LSimple E 3, y))] 2;
             SUnion {| ic := 85%N; itl := [] |} [LUs n200 A [(LArray (LSimple i32 0) 0, x)]; LUm one B [(one, (LSimple str 1, y))]] 1;
             SOpMessage (LStr 65%N 66%N 67%N 68%N) {| ic := 79%N; itl := [] |} [(one, (LSimple i32 0, x))] 0;
             SOpStruct (LNum n200) {| ic := 80%N; itl := [] |} [] 1;
             STEnum {| ic := 84%N; itl := [] |} {| ic := 105%N; itl := [110; 116; 49; 54]%N |} false 16%N [(A, n200)] 0;
             SDMessage {| ic := 68%N; itl := [] |} [(Some [111; 108; 100]%N, (one, (LSimple i32 0, x))); (None, (n200, (LSimple str 0, y)))] 0;
             SDocStruct [[32; 97]%N; [98]%N] {| ic := 67%N; itl := [] |} [(LSimple i32 0, x)] 1;
             SDec [LDoc [100]%N; LOpc (LNum one); LDoc [101]%N; LOpc (LStr 69%N 70%N 71%N 72%N)] (BUnion {| ic := 86%N; itl := [] |} [LUs one A []]) 1;
             SDec [LDoc [102]%N] (BEnum {| ic := 87%N; itl := [] |} {| ic := 98%N; itl := [121; 116; 101]%N |} true 8%N [(A, n200)]) 0;
             SStruct S [] 0;
             SFDocStruct {| ic := 70%N; itl := [] |}
               [([[32; 100]%N; [91; 116; 97; 103; 40; 106; 115; 111; 110; 58; 34; 105; 100; 34; 41; 93]%N; [91; 116; 97; 103; 40; 111; 41; 93]%N], (None, (LSimple i32 0, x)));
                ([], (Some [103; 111]%N, (LSimple str 1, y)))] 1;
             SFDocMessage {| ic := 71%N; itl := [] |}
               [([[32; 109]%N], (Some [111; 108; 100]%N, (one, (LSimple i32 0, x)))); ([], (None, (n200, (LSimple str 0, y))))] 0;
             SFDocEnum {| ic := 72%N; itl := [] |} {| ic := 117%N; itl := [105; 110; 116; 56]%N |} true 8%N
               [([[32; 101]%N; [32; 102]%N], (None, (A, one))); ([], (Some [120]%N, (B, n200)))] 0;
             SDec [LDoc [100]%N; LOpc (LNum one)] (BFStruct {| ic := 90%N; itl := [] |} [([[32; 122]%N], (None, (LSimple i32 0, x)))]) 0;
             SEolStruct {| ic := 89%N; itl := [] |} [((LSimple i32 0, x), Some [32; 101]%N); ((LSimple str 0, y), None)] 0;
             SFDocUEnum {| ic := 75%N; itl := [] |} [([[32; 107]%N], (None, (A, one)))] 0;
             SFDocRoStruct {| ic := 81%N; itl := [] |} [([], (Some [113]%N, (LSimple i32 0, x)))] 0;
             SFDocUnion {| ic := 87%N; itl := [111%N] |}
               [([], (None, LUs one A [(LSimple i32 0, x)]));
                ([[32; 98]%N; [91; 116; 97; 103; 40; 111; 41; 93]%N], (Some [103]%N, LUm n200 B [(one, (LSimple str 0, y))]))] 0;
             STEnum {| ic := 88%N; itl := [] |} {| ic := 117%N; itl := [105; 110; 116; 56]%N |} true 8%N [(A, hex1f)] 0] in
  let lay := glayout (map xel_of dl) in
  Forall sdefn_ok dl /\ map snd lay = schema_lexemes dl /\ sep_ok lay /\
  (exists s', read_file (render lay []) false = POk (schema_file dl) s') /\
  map s_readonly (structs (schema_file dl)) = [true; false; false; false; false; false; false; true] /\ map s_opcode (structs (schema_file dl)) = [0; 200; 0; 0; 0; 1; 0; 0]%N /\
  map s_comment (structs (schema_file dl)) = [[]; []; [32; 97; 10; 98]; []; []; [100]; []; []]%N /\
  map m_opcode (messages (schema_file dl)) = [0; 1145258561; 0; 0]%N /\ imports (schema_file dl) = [[97; 46; 98; 111; 112]; [98]]%N /\
  map (fun u => (un_comment u, un_opcode u)) (unions (schema_file dl)) = [([], 0%N); ([100; 10; 101]%N, 1212630597%N); ([], 0%N)] /\
  map (fun p => (u_tags (snd p), u_dep (snd p), u_depmsg (snd p), match u_msg (snd p) with Some m => m_comment m | None => [] end))
      (flat_map un_fields (skipn 2 (unions (schema_file dl))))
  = [([], false, [], []); ([{| tg_key := [111]%N; tg_value := []; tg_bool := true |}], true, [103]%N, [32; 98; 10; 91; 116; 97; 103; 40; 111; 41; 93]%N)] /\
  map e_comment (enums (schema_file dl)) = [[]; []; [102]; []; []; []]%N /\
  map (fun o => (o_comment o, o_dep o, o_depmsg o, o_uvalue o)) (flat_map e_opts (skipn 3 (enums (schema_file dl)))) = [([32; 101; 10; 32; 102]%N, false, [], 1%N); ([], true, [120]%N, 200%N); ([32; 107]%N, false, [], 1%N); ([], false, [], 31%N)] /\
  map (fun p => f_dep (snd p)) (flat_map m_fields (messages (schema_file dl))) = [false; false; false; true; false; true; false] /\
  map (fun p => f_comment (snd p)) (flat_map m_fields (messages (schema_file dl))) = [[]; []; []; []; []; [32; 109]; []]%N /\
  map (fun f => f_type f) (flat_map s_fields (structs (schema_file dl)))
  = [FArray (FArray (FMap (ibytes str) (FArray (FArray (FSimple (ibytes i32)))))); FSimple (ibytes i32); FSimple (ibytes i32); FSimple (ibytes i32); FArray (FSimple (ibytes str)); FSimple (ibytes i32); FSimple (ibytes i32); FSimple (ibytes str); FSimple (ibytes i32)] /\
  map (fun f => (f_dep f, f_depmsg f)) (flat_map s_fields (structs (schema_file dl))) = [(false, []); (false, []); (false, []); (false, []); (true, [103; 111]%N); (false, []); (false, []); (false, []); (true, [113]%N)] /\
  map (fun f => (f_comment f, f_tags f)) (flat_map s_fields (structs (schema_file dl)))
  = [([], []); ([], []); ([], []);
     ([32; 100; 10; 91; 116; 97; 103; 40; 106; 115; 111; 110; 58; 34; 105; 100; 34; 41; 93; 10; 91; 116; 97; 103; 40; 111; 41; 93]%N,
      [{| tg_key := [106; 115; 111; 110]%N; tg_value := [105; 100]%N; tg_bool := false |}; {| tg_key := [111]%N; tg_value := []; tg_bool := true |}]);
     ([], []); ([32; 122]%N, []); ([], []); ([], []); ([], [])].
Proof.
  cbv zeta.
  match goal with |- Forall sdefn_ok ?d /\ _ => assert (Hok : Forall sdefn_ok d) end.
  { assert (Hhex : idx_ok {| xc := 48%N; xds := [120; 49; 70]%N; xv := 31%N |}).
    { split; [reflexivity|]. right. split; [reflexivity|]. exists 49%N, [70%N]. split; [reflexivity|repeat constructor]. }
    repeat (first [exact Hhex | constructor]); cbn; intuition discriminate. }
  split; [exact Hok|].
  assert (Hx : Forall xel_ok (map xel_of _)) by (eapply Forall_map'; exact Hok).
  split; [exact (glayout_lex _ Hx)|]. split; [exact (glayout_sep _ Hx)|]. split; [eexists; vm_compute; reflexivity|]. repeat split; vm_compute; reflexivity.
Qed.
Print Assumptions C11_schema.
