(* C11: the parsed File says exactly what the schema text says.
   front/Tok.v + front/Parse.v are executable ports of tokenize.go, token_tree.go, parse.go, parse_expr.go and eval_expr.go
   (the tokenizer over a model of bufio.Reader; the parser over the precomputed list of Next() results); the correspondence
   check (lib/front.py, check_c10) compares their result with the implementation's on every input and evaluates the
   property directly.  Termination of the MODEL is by construction (structural recursion on fuel); that the fuel the
   driver passes suffices is observed on every run (no FUEL outcome), not yet proved.  Proved so far - the tokenizer's
   behaviour on the token classes the top-level loop dispatches on (for every amount of leading horizontal whitespace): *)
Require Import Bebop.front.Tok Bebop.front.TokInv Bebop.front.LexInv Bebop.front.Parse Bebop.front.ParseInv Bebop.front.FmtInv Bebop.front.MsgInv Bebop.front.GenInv Bebop.front.Items Bebop.front.TyInv Bebop.front.TyMsg Bebop.front.TyItems Bebop.front.TyUnion Bebop.front.TyUnionItem Bebop.front.Schema.
From Coq Require Import List NArith.
Import ListNotations.

Definition C11_partial_statement : Prop :=
  (* a single-byte terminal is recognised after any run of spaces / tabs / CRs, and exactly it is consumed *)
  (forall c k ws r lb lr, term1 c = Some k -> Forall (fun c0 => is_hws c0 = true) ws ->
     exists lb' lr', next (st (ws ++ c :: r) lb lr) = R (Some {| kind := k; concrete := [c] |}) (st r lb' lr')) /\
  (* an identifier or keyword is read up to, and not including, the first non-identifier byte *)
  (forall c tl d ws r lb lr, is_letter c = true -> Forall (fun c0 => is_idc c0 = true) tl -> is_idc d = false ->
     Forall (fun c0 => is_hws c0 = true) ws ->
     exists lb' lr', next (st (ws ++ c :: tl ++ d :: r) lb lr) = R (Some {| kind := keyword (c :: tl); concrete := c :: tl |}) (st (d :: r) lb' lr')).

Theorem C11_partial : C11_partial_statement.
Proof. split; [exact next_term1|exact next_word]. Qed.
Print Assumptions C11_partial.

(* Whole texts.  A text that is a sequence of lexemes - words (identifiers and keywords), single-byte terminals (newline,
   braces, brackets, parentheses, ; , : = | &), the arrow, decimal integer literals, string literals without escapes -
   each preceded by ANY run of horizontal whitespace (spaces, tabs, CRs: CRLF line ends included), is tokenized into
   exactly those tokens, followed by clean end-of-input results and nothing else (lex_inversion).  The parser model is a
   function of that list alone, so for these texts "the result does not depend on horizontal whitespace ... CRLF line
   ends" holds at the only interface through which layout could reach it: two such texts with the same lexemes give the
   same tokens (layout_independent).  Not covered: comments, floats, negative / hex literals, << >>, escapes. *)
Definition C11_lex_statement : Prop :=
  (forall l tail m lb lr,
     Forall (fun p => hws (fst p) /\ lex_ok (snd p)) l -> sep_ok l -> hws tail ->
     next_results (length l + m) (st (render l tail) lb lr) = map (fun p => NT (tok_of (snd p)) []) l ++ repeat (NF []) m) /\
  (forall l l' tail tail', map snd l = map snd l' ->
     Forall (fun p => hws (fst p) /\ lex_ok (snd p)) l -> sep_ok l -> hws tail ->
     Forall (fun p => hws (fst p) /\ lex_ok (snd p)) l' -> sep_ok l' -> hws tail' ->
     exists toks m m', run (render l tail) false = toks ++ repeat (NF []) m /\ run (render l' tail') false = toks ++ repeat (NF []) m').
Theorem C11_lex : C11_lex_statement.
Proof. exact (conj lex_inversion layout_independent). Qed.

(* the hypotheses are met by a real schema text with ragged spacing and CRLF line ends *)
Example C11_lex_witness :
  let sp := [32%N] in let crlf := [13%N] in
  let l := [([], W 115 [116;114;117;99;116]); (sp ++ sp, W 65 []); ([9%N], T1 123 kOpenCu); (crlf, T1 10 kNewline);
            (sp, W 105 [110;116;51;50]); ([9%N; 32%N], W 97 []); ([], T1 59 kSemi); (crlf, T1 10 kNewline);
            ([], Num 49 []); (sp, Arrow); (sp, Str [120]); ([], T1 125 kCloseCu); ([], T1 10 kNewline)]%N in
  Forall (fun p => hws (fst p) /\ lex_ok (snd p)) l /\ sep_ok l /\
  firstn 13 (run (render l []) false) = map (fun p => NT (tok_of (snd p)) []) l.
Proof.
  cbv zeta. split; [repeat constructor|]. split; [cbn; intuition (try discriminate; eauto)|vm_compute; reflexivity].
Qed.
Print Assumptions C11_lex.

(* End to end on a core sub-language.  For EVERY list of struct definitions whose names, field types and field names are
   identifiers that are not keywords (any number of structs and fields, identifiers of any length), and EVERY way of
   putting horizontal whitespace - spaces, tabs, CRs, hence CRLF line ends and any indentation - in front of the tokens of
   the one-field-per-line text, ReadFile (tokenizer and parser models together, with the fuel the driver passes) returns
   exactly the File the text states: the structs in source order, each with its fields in order, nothing else (blank lines between definitions allowed), no
   attribute leaking from one definition to the next.  (front/ParseInv.v: tokenizer inversion, then the parser stepped
   symbolically over the token list with an induction over fields and over definitions.)  Messages, enums, unions, consts,
   container types, attributes and comments are decided by the run against the expected dump. *)
Definition C11_structs_statement : Prop :=
  forall sl l tail,
    Forall sdef_ok sl -> map snd l = schema_lex sl ->
    Forall (fun p => hws (fst p)) l -> sep_ok l -> hws tail ->
    exists s', read_file (render l tail) false = POk (file_of sl) s'.
Theorem C11_structs : C11_structs_statement.
Proof. exact read_structs. Qed.

(* the hypotheses are met: two structs, ragged spacing, CRLF line ends *)
Example C11_structs_witness :
  let A := {| ic := 65%N; itl := [] |} in let B := {| ic := 66%N; itl := [98%N] |} in
  let i32 := {| ic := 105%N; itl := [110; 116; 51; 50]%N |} in let x := {| ic := 120%N; itl := [] |} in let y := {| ic := 121%N; itl := [49; 95]%N |} in
  let sl := [(A, [(i32, x); (B, y)], 1); (B, [], 0)] in
  let sp := [32%N] in let cr := [13%N] in
  let ws := [[]; sp; sp ++ sp; cr;  [9%N]; sp; []; cr;  [9; 32]%N; [9%N]; sp; cr;  []; cr;  cr;   []; sp; []; cr; []; []] in
  let l := combine ws (schema_lex sl) in
  Forall sdef_ok sl /\ map snd l = schema_lex sl /\ Forall (fun p => hws (fst p)) l /\ sep_ok l /\
  exists s', read_file (render l [32; 13]%N) false = POk (file_of sl) s'.
Proof.
  cbv zeta. split; [repeat constructor|]. split; [reflexivity|]. split; [repeat constructor|].
  split; [cbn; intuition (try discriminate; eauto)|]. eexists. vm_compute. reflexivity.
Qed.
Print Assumptions C11_structs.

(* The same with MESSAGES: a schema is any sequence of struct and message definitions; message indices are any decimal
   literals that denote 1 .. 255 (parse_uint, leading zeros and all), distinct within a message.  For EVERY such schema
   and EVERY layout, ReadFile returns exactly the File the text states: structs and messages each in source order, every
   field with its index, type and name, nothing attached to the wrong definition (front/MsgInv.v). *)
Definition C11_records_statement : Prop :=
  forall dl l tail,
    Forall defn_ok dl -> map snd l = defs_lex dl -> Forall (fun p => hws (fst p)) l -> sep_ok l -> hws tail ->
    exists s', read_file (render l tail) false = POk (dfile_of dl) s'.
Theorem C11_records : C11_records_statement.
Proof. exact read_defs. Qed.

Example C11_records_witness :
  let A := {| ic := 65%N; itl := [] |} in let M := {| ic := 77%N; itl := [115%N] |} in
  let i32 := {| ic := 105%N; itl := [110; 116; 51; 50]%N |} in let x := {| ic := 120%N; itl := [] |} in let y := {| ic := 121%N; itl := [] |} in
  let one := {| xc := 49%N; xds := []; xv := 1%N |} in let n200 := {| xc := 50%N; xds := [48; 48]%N; xv := 200%N |} in
  let dl := [DM M [(n200, (i32, x)); (one, (A, y))] 1; DS A [(i32, x)] 0] in
  let l := dlayout dl in
  Forall defn_ok dl /\ map snd l = defs_lex dl /\ Forall (fun p => hws (fst p)) l /\ sep_ok l /\
  exists s', read_file (render l []) false = POk (dfile_of dl) s'.
Proof.
  cbv zeta. split; [repeat constructor; cbn; intuition discriminate|]. split; [apply dlayout_lex|]. split; [apply dlayout_hws|].
  split; [apply dlayout_sep|]. eexists. vm_compute. reflexivity.
Qed.
Print Assumptions C11_records.

(* And with ENUMS and CONTAINER TYPES, through the item framework of front/GenInv.v (each kind of definition contributes its
   tokens, what it adds to the File and one step lemma for the top-level loop; front/Items.v and front/TyItems.v have the
   instances; front/TyUnion.v + front/TyUnionItem.v the union): a schema is any sequence of struct, readonly struct, message,
   enum and (non-empty) union definitions, union branches being structs or messages under distinct indices; a field type is an
   identifier, array[T], map[K, V] with a primitive key, or any of those followed by any number of [] - nested to ANY depth
   (front/TyInv.v: read_field_type on the tokens of a type expression, by induction on the expression); enums untyped,
   members with plain decimal values; the readonly marker lands on the struct it precedes and on no other.  For EVERY such
   schema and EVERY layout ReadFile returns the File the text states, which schema_file_spec writes out: each kind of
   definition in source order, field types as the expression's structure says (ft_of), nothing else. *)
Definition C11_schema_statement : Prop :=
  (forall dl lay tail,
     Forall sdefn_ok dl -> map snd lay = schema_lexemes dl -> Forall (fun p => hws (fst p)) lay -> sep_ok lay -> hws tail ->
     exists s', read_file (render lay tail) false = POk (schema_file dl) s') /\
  (forall dl,
     structs (schema_file dl) = flat_map structs_of dl /\
     messages (schema_file dl) = flat_map messages_of dl /\
     enums (schema_file dl) = flat_map enums_of dl /\
     unions (schema_file dl) = flat_map unions_of dl /\ consts (schema_file dl) = [] /\ imports (schema_file dl) = [] /\ gopackage (schema_file dl) = []) /\
  (* what the pieces are *)
  (forall nm bl k, unions_of (SUnion nm bl k) =
     [{| un_name := ibytes nm; un_comment := []; un_opcode := 0;
         un_fields := map (fun b => match b with
                                    | LUs x bn fl => (xv x, {| u_msg := None; u_struct := Some (tstruct_of (ibytes bn) (map btf fl)); u_tags := []; u_depmsg := []; u_dep := false |})
                                    | LUm x bn fl => (xv x, {| u_msg := Some (tmessage_of (ibytes bn) (map btm fl)); u_struct := None; u_tags := []; u_depmsg := []; u_dep := false |})
                                    end) bl |}]) /\
  (forall nm fl k, structs_of (SStruct nm fl k) =
     [{| s_name := ibytes nm; s_comment := []; s_opcode := 0; s_readonly := false;
         s_fields := map (fun f => {| f_type := ft_of (bty (fst f)); f_name := ibytes (snd f); f_comment := []; f_tags := []; f_depmsg := []; f_dep := false |}) fl |}]) /\
  (forall nm fl k, structs_of (SReadonly nm fl k) =
     [{| s_name := ibytes nm; s_comment := []; s_opcode := 0; s_readonly := true;
         s_fields := map (fun f => {| f_type := ft_of (bty (fst f)); f_name := ibytes (snd f); f_comment := []; f_tags := []; f_depmsg := []; f_dep := false |}) fl |}]) /\
  (forall nm fl k, messages_of (SMessage nm fl k) =
     [{| m_name := ibytes nm; m_comment := []; m_opcode := 0;
         m_fields := map (fun f => (xv (fst f), {| f_type := ft_of (bty (fst (snd f))); f_name := ibytes (snd (snd f)); f_comment := []; f_tags := []; f_depmsg := []; f_dep := false |})) fl |}]) /\
  (* and what a type expression denotes: the identifier, array or map, wrapped in one array per [] *)
  (forall i n, ft_of (bty (LSimple i n)) = wrap n (FSimple (ibytes i))) /\
  (forall t n, ft_of (bty (LArray t n)) = wrap n (FArray (ft_of (bty t)))) /\
  (forall k v n, ft_of (bty (LMap k v n)) = wrap n (FMap (ibytes k) (ft_of (bty v)))).
Lemma Forall_map' (dl : list sdefn) : Forall sdefn_ok dl -> Forall xel_ok (map xel_of dl).
Proof. induction 1; cbn [map]; constructor; [now apply xel_of_ok|assumption]. Qed.
Theorem C11_schema : C11_schema_statement.
Proof.
  split; [|split; [exact schema_file_spec|]].
  - intros dl lay tail H1 H2 H3 H4 H5.
    destruct (schema_laws dl lay tail H1 H2 H3 H4 H5) as (y & _ & _ & _ & _ & Hr). exact Hr.
  - split.
    { intros nm bl k. unfold unions_of, union_of. rewrite map_map. do 2 f_equal. apply map_ext. intros [x bn fl|x bn fl]; reflexivity. }
    repeat split; intros; unfold structs_of, messages_of, tstruct_of, tstruct_of_ro, tmessage_of; rewrite ?map_map; reflexivity.
Qed.
(* the hypotheses are met (an enum, a readonly struct with a map of arrays, a message with nested containers, a union, an empty struct;
   blank lines), and the conclusion computed *)
Example C11_schema_witness :
  let E := {| ic := 69%N; itl := [] |} in let R := {| ic := 82%N; itl := [111%N] |} in let M := {| ic := 77%N; itl := [] |} in
  let S := {| ic := 83%N; itl := [] |} in let A := {| ic := 65%N; itl := [] |} in let B := {| ic := 66%N; itl := [] |} in
  let i32 := {| ic := 105%N; itl := [110; 116; 51; 50]%N |} in let x := {| ic := 120%N; itl := [] |} in let y := {| ic := 121%N; itl := [] |} in
  let str := {| ic := 115%N; itl := [116; 114; 105; 110; 103]%N |} in
  let one := {| xc := 49%N; xds := []; xv := 1%N |} in let n200 := {| xc := 50%N; xds := [48; 48]%N; xv := 200%N |} in
  let dl := [SEnum E [(A, one); (B, n200)] 1;
             SReadonly R [(LMap str (LArray (LSimple i32 1) 0) 2, x); (LSimple i32 0, y)] 0;
             SMessage M [(n200, (LArray (LMap i32 (LSimple R 0) 0) 1, x)); (one, (LSimple E 3, y))] 2;
             SUnion {| ic := 85%N; itl := [] |} [LUs n200 A [(LArray (LSimple i32 0) 0, x)]; LUm one B [(one, (LSimple str 1, y))]] 1;
             SStruct S [] 0] in
  let lay := glayout (map xel_of dl) in
  Forall sdefn_ok dl /\ map snd lay = schema_lexemes dl /\ sep_ok lay /\
  (exists s', read_file (render lay []) false = POk (schema_file dl) s') /\
  map s_readonly (structs (schema_file dl)) = [true; false] /\
  map (fun f => f_type f) (flat_map s_fields (structs (schema_file dl)))
  = [FArray (FArray (FMap (ibytes str) (FArray (FArray (FSimple (ibytes i32)))))); FSimple (ibytes i32)].
Proof.
  cbv zeta.
  match goal with |- Forall sdefn_ok ?d /\ _ => assert (Hok : Forall sdefn_ok d) end.
  { repeat constructor; cbn; intuition discriminate. }
  split; [exact Hok|].
  assert (Hx : Forall xel_ok (map xel_of _)) by (eapply Forall_map'; exact Hok).
  split; [exact (glayout_lex _ Hx)|]. split; [exact (glayout_sep _ Hx)|]. split; [eexists; vm_compute; reflexivity|]. split; vm_compute; reflexivity.
Qed.
Print Assumptions C11_schema.
