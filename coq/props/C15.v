(* C15: constants, enum members and opcodes carry the schema's values into Go.
   Enum members are emitted with %d and opcodes with 0x%x (gen.go); Go reads them back as decimal / hexadecimal literals.
   Proved for ALL integers (no width bound): printing then parsing is the identity.  The literal TEXT of consts is copied
   into Go unchanged; that bebop and Go agree on its meaning, and the values of [flags] expressions, are decided by the
   correspondence check (lib/c15.py), which compiles and runs the generated constants. *)
Require Import Bebop.front.Dec.
From Coq Require Import NArith ZArith List.
Import ListNotations.

Definition C15_partial_statement : Prop :=
  (forall n : N, parse_dec (fmt_d n) = Some n) /\ (forall z : Z, parse_decz (fmt_dz z) = Some z) /\ (forall n : N, parse_hex (fmt_x n) = Some n).
Theorem C15_partial : C15_partial_statement.
Proof. exact (conj parse_fmt_d (conj parse_fmt_dz parse_fmt_x)). Qed.

Example C15_witness : fmt_x 1684234849 = [54; 52; 54; 51; 54; 50; 54; 49]%N%list /\ parse_hex (fmt_x 1684234849) = Some 1684234849%N.
Proof. split; vm_compute; reflexivity. Qed.
Print Assumptions C15_partial.
