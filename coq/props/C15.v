(* C15: constants, enum members and opcodes carry the schema's values into Go.
   Enum members are emitted with %d and opcodes with 0x%x (gen.go); Go reads them back as decimal / hexadecimal literals.
   Proved for ALL integers (no width bound): printing then parsing is the identity.  The literal TEXT of consts is copied
   into Go unchanged; that bebop and Go agree on its meaning, and the values of [flags] expressions, are decided by the
   correspondence check (lib/c15.py), which compiles and runs the generated constants. *)
Require Import Bebop.front.Dec.
From Coq Require Import NArith ZArith List.
Import ListNotations.

Definition C15_partial_statement : Prop :=
  (forall n : N, parse_dec (fmt_d n) = Some n) /\ (forall z : Z, parse_decz (fmt_dz z) = Some z) /\ (forall n : N, parse_hex (fmt_x n) = Some n).
Theorem C15_partial : C15_partial_statement.
Proof. exact (conj parse_fmt_d (conj parse_fmt_dz parse_fmt_x)). Qed.

Example C15_witness : fmt_x 1684234849 = [54; 52; 54; 51; 54; 50; 54; 49]%N%list /\ parse_hex (fmt_x 1684234849) = Some 1684234849%N.
Proof. split; vm_compute; reflexivity. Qed.
Print Assumptions C15_partial.

(* The widths at which the parser model reads enum members and evaluates [flags] expressions (Parse.is_uint_prim / is_int_prim,
   hand-written) are the source's decodeIntegerType switch as translator T2 regenerates it on every run: the same type names,
   the same bit widths, the same signedness - both ways. *)
Require Import Bebop.front.Tok Bebop.front.Parse Bebop.gen.Tables.
From Coq Require Import String Ascii Bool.
Definition bos (s : string) : list N := map (fun a => N.of_nat (nat_of_ascii a)) (list_ascii_of_string s).
Definition width_entry_ok (kv : string * (nat * bool)) : bool :=
  let '(name, (bits, uns)) := kv in
  if uns then match is_uint_prim (bos name) with Some b => N.eqb b (N.of_nat bits) | None => false end
  else match is_uint_prim (bos name), is_int_prim (bos name) with None, Some b => N.eqb b (N.of_nat bits) | _, _ => false end.
Definition C15_widths_statement : Prop :=
  (forall kv, In kv decode_integer_type -> width_entry_ok kv = true) /\
  (forall b k, is_uint_prim b = Some k -> In (b, (N.to_nat k, true)) (map (fun kv => (bos (fst kv), snd kv)) decode_integer_type)) /\
  (forall b k, is_int_prim b = Some k -> In (b, (N.to_nat k, false)) (map (fun kv => (bos (fst kv), snd kv)) decode_integer_type)).
Theorem C15_widths : C15_widths_statement.
Proof.
  split; [apply forallb_forall; vm_compute; reflexivity|]. split.
  - intros b k. unfold is_uint_prim, beq.
    repeat match goal with |- context [list_eq_dec N.eq_dec b ?w] => destruct (list_eq_dec N.eq_dec b w) as [->|_]; [intros [= <-]; vm_compute; tauto|] end. discriminate.
  - intros b k. unfold is_int_prim, beq.
    repeat match goal with |- context [list_eq_dec N.eq_dec b ?w] => destruct (list_eq_dec N.eq_dec b w) as [->|_]; [intros [= <-]; vm_compute; tauto|] end. discriminate.
Qed.
Print Assumptions C15_widths.
