(* C09: generator options never change what goes on the wire.
   The options select among template variants that the model does not distinguish (receiver style, naming, tags,
   shared-memory strings): that they are behaviourally identical is decided by the correspondence check (lib/c09.py) on
   the code generated under each option set.  The one option with a semantic counterpart in the model is the unchecked
   decoder: *)
Require Import Bebop.wire.Wire Bebop.wire.WireFacts Bebop.wire.ByteDec Bebop.wire.ByteDecFacts Bebop.props.WireExample.

(* MustUnmarshalBebop agrees with UnmarshalBebop on EVERY input UnmarshalBebop accepts (valid encodings in particular) *)
Definition C09_must_statement : Prop :=
  forall s l fuel t bs r, dec3 s {| safe := true; lim := l |} fuel t bs = Ok r -> dec3 s {| safe := false; lim := l |} fuel t bs = Ok r.

Theorem C09_must : C09_must_statement.
Proof.
  intros s l fuel t bs r H. rewrite must_agrees_with_checked; [exact H|]. now rewrite H.
Qed.

Example C09_witness :
  dec3 ex_schema {| safe := true; lim := None |} 20 (TRef 4) ex_bytes = Ok (ex_value, 78, 78).
Proof. vm_compute. reflexivity. Qed.

Print Assumptions C09_must.
