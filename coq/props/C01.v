(* C01: encode then decode returns the value that was encoded.
   Model: coq/wire (Wire.v reference encoding; ByteDec.v = generated UnmarshalBebop / MustUnmarshalBebop; Encoders.v = generated
   MarshalBebopTo / EncodeBebop; StreamDec.v = generated DecodeBebop).  The model is tied to /repo by the correspondence check
   (lib/c01.py), which runs all pairings on the code the current generator emits. *)
Require Bebop.wire.PrimBridge.   (* the primitive layer is tied to iohelp (translator T1): part of this property's closure *)
Require Import Bebop.wire.Wire Bebop.wire.WireFacts Bebop.wire.ByteDec Bebop.wire.ByteDecFacts
               Bebop.wire.Encoders Bebop.wire.EncodersFacts Bebop.wire.StreamDec Bebop.wire.StreamFacts Bebop.props.WireExample.

(* the value every encoder emits for a normalised value [v] (deprecated fields empty, one union member): the reference
   encoding [a]; MarshalBebop = make(Size()) + MarshalBebopTo, so it is the mto clause with an all-zero buffer *)
Definition encoders_emit (s : schema) (t : ty) (v : value) (a : bytes) : Prop :=
  size s t v = length a /\
  (forall buf, length a <= length buf -> mto s true t v buf 0 = Some (a ++ skipn (length a) buf, length a)) /\
  (exists k, senc nofault s t v ew0 = ({| out := a; calls := k; werr := false |}, false)).

(* the byte-path decoders, checked and unchecked, return [v] from [a] followed by anything, advancing exactly |a| *)
Definition byte_decoders_return (s : schema) (t : ty) (v : value) (a : bytes) : Prop :=
  forall sf, exists f0, forall fuel, f0 <= fuel -> forall rest,
    dec3 s {| safe := sf; lim := None |} fuel t (a ++ rest) = Ok (v, length a, length a).

(* the stream decoder returns [v] and leaves the reader exactly after [a], for every read schedule *)
Definition stream_decoder_returns (s : schema) (t : ty) (v : value) (a : bytes) : Prop :=
  exists f0, forall fuel, f0 <= fuel -> forall rest sch,
    exists r', sdec s None fuel t {| bs := {| data := a ++ rest; sched := sch |}; limits := []; err := false |} = Ok (v, r')
               /\ data (bs r') = rest /\ err r' = false.

(* the full property: every accepted schema, every normalised value, 3 encoders x 3 decoders *)
Definition C01_statement : Prop :=
  forall s, schema_wf s -> forall t v a, enc s t v = Some a ->
    encoders_emit s t v a /\ byte_decoders_return s t v a /\ stream_decoder_returns s t v a.

Lemma stream_clause s : schema_wf s -> forall t v a, enc s t v = Some a -> stream_decoder_returns s t v a.
Proof.
  intros Hwf t v a E. destruct (stream_roundtrip s Hwf v t a E) as [f0 H0]. exists f0. intros fuel Hf rest sch.
  destruct (H0 fuel Hf {| bs := {| data := a ++ rest; sched := sch |}; limits := []; err := false |} rest eq_refl (Forall_nil _) eq_refl) as (r' & Hd & (D & _ & Er)).
  exists r'. split; [exact Hd|]. cbn [bs data err] in *. split; [rewrite D; apply skipn_app_len|exact Er].
Qed.

Theorem C01 : C01_statement.
Proof.
  intros s Hwf t v a E. pose proof (enc_genc s v t a E) as G. split; [split; [|split]|split].
  - exact (L1 s v t a E).
  - intros buf Hb. exact (C02_buffer s v t a buf G Hb).
  - destruct (L3 s v t a G ew0 eq_refl) as [k Hk]. exists (0 + k). exact Hk.
  - intros sf. exact (roundtrip3 s {| safe := sf; lim := None |} Hwf eq_refl v t a E).
  - exact (stream_clause s Hwf t v a E).
Qed.

(* non-vacuity: a concrete schema with every kind of definition and a value exercising them meets the hypotheses, and
   the decoder really returns it (computed, both decoders) *)
Example C01_witness :
  schema_wf ex_schema /\ enc ex_schema (TRef 4) ex_value = Some ex_bytes /\
  dec3 ex_schema {| safe := true; lim := None |} 20 (TRef 4) (ex_bytes ++ [9; 9]%N) = Ok (ex_value, 78, 78) /\
  dec3 ex_schema {| safe := false; lim := Some 64%N |} 20 (TRef 4) ex_bytes = Ok (ex_value, 78, 78).
Proof. split; [exact ex_schema_wf|]. repeat split; vm_compute; reflexivity. Qed.

Print Assumptions C01.
