(* C10: ReadFile always terminates and never silently drops part of a schema.
   front/Tok.v + front/Parse.v are executable ports of tokenize.go, token_tree.go, parse.go, parse_expr.go and eval_expr.go
   (the tokenizer over a model of bufio.Reader; the parser over the precomputed list of Next() results); the correspondence
   check (lib/front.py, check_c10) compares their result with the implementation's on every input and evaluates the
   property directly.  Termination of the MODEL is by construction (structural recursion on fuel); that the fuel and the
   number of precomputed Next() results suffice for EVERY input is C10_terminates / C10_tokenizer_fuel below.  Proved: (1) C10_no_panic - for EVERY
   input and whether or not the reader fails, neither a Next() call nor ReadFile panics (every UnreadByte follows a
   successful ReadByte; a negative shift count is an error); (2) C10_partial - the tokenizer's behaviour on the token classes
   the top-level loop dispatches on (for every amount of leading horizontal whitespace). *)
Require Import Bebop.front.Tok Bebop.front.TokInv Bebop.front.Parse Bebop.front.TokSafe Bebop.front.ParseSafe.
From Coq Require Import List NArith.
Import ListNotations.

Definition C10_partial_statement : Prop :=
  (* a single-byte terminal is recognised after any run of spaces / tabs / CRs, and exactly it is consumed *)
  (forall c k ws r lb lr, term1 c = Some k -> Forall (fun c0 => is_hws c0 = true) ws ->
     exists lb' lr', next (st (ws ++ c :: r) lb lr) = R (Some {| kind := k; concrete := [c] |}) (st r lb' lr')) /\
  (* an identifier or keyword is read up to, and not including, the first non-identifier byte *)
  (forall c tl d ws r lb lr, is_letter c = true -> Forall (fun c0 => is_idc c0 = true) tl -> is_idc d = false ->
     Forall (fun c0 => is_hws c0 = true) ws ->
     exists lb' lr', next (st (ws ++ c :: tl ++ d :: r) lb lr) = R (Some {| kind := keyword (c :: tl); concrete := c :: tl |}) (st (d :: r) lb' lr')).

Theorem C10_partial : C10_partial_statement.
Proof. split; [exact next_term1|exact next_word]. Qed.
Print Assumptions C10_partial.

Definition C10_no_panic_statement : Prop :=
  (forall s, next s <> RPanic) /\ (forall input fails, read_file input fails <> PPanic).
Theorem C10_no_panic : C10_no_panic_statement.
Proof. exact (conj next_never_panics read_file_never_panics). Qed.

(* the two inputs on which the code did panic before the repairs (be3f98d, 8cda268) are errors now *)
Example C10_former_panics :
  (exists r, read_file [] true = r /\ r = PErr) /\
  read_file [91;102;108;97;103;115;93;32;101;110;117;109;32;69;58;105;110;116;51;50;32;123;65;32;61;32;49;32;60;60;32;45;49;59;125]%N false = PErr.
Proof. split; [eexists; split; [reflexivity|vm_compute; reflexivity]|vm_compute; reflexivity]. Qed.
Print Assumptions C10_no_panic.

(* The tokenizer model's lexical tables ARE the source's (front/TokTie.v over gen/TokTable.v, which translator T6 regenerates
   from token.go and tokenize.go on every run): the kind numbers; the keyword map, both ways; at each of the 7 nodes of the
   model's token tree and each of the 256 byte values, what the model does (no successor / descend to which node / build
   which kind of token) is what newTokenTree's tree has at that path, and every inner node of that tree is a node of the
   model; the skipped bytes; the byte chosen by the greedy error correction, which always has a successor. *)
Require Import Bebop.gen.TokTable Bebop.front.TokTie.
Definition C10_tables_statement : Prop :=
  (forall w k, In (w, k) go_keywords -> keyword w = k /\ k <> kIdent) /\
  (forall c, keyword c <> kIdent -> In (c, keyword c) go_keywords) /\
  (forall n b, (b < 256)%N -> succ_tie n b = true) /\
  (forall e q, In e go_tree -> In q (proper_prefixes (fst e)) -> exists n, path_of n = q) /\
  (forall n b, (b < 256)%N -> skips n b = match n with NRoot => existsb (N.eqb b) go_skips | _ => false end) /\
  (forall n, n <> NRoot -> first_valid n = go_first_valid (path_of n) /\ succ n (first_valid n) <> NoSucc) /\
  (kIdent = go_tokenKindIdent /\ kInt = go_tokenKindIntegerLiteral /\ kString = go_tokenKindStringLiteral /\ kNewline = go_tokenKindNewline /\
   kLineC = go_tokenKindLineComment /\ kBlockC = go_tokenKindBlockComment).
Theorem C10_tables : C10_tables_statement.
Proof.
  split; [exact keywords_sound|]. split; [exact keywords_complete|]. split; [exact tree_tie|]. split; [exact tree_nodes|].
  split; [exact skips_tie|]. split; [intros n Hn; split; [exact (first_valid_tie n Hn)|exact (first_valid_has_successor n Hn)]|].
  repeat split; reflexivity.
Qed.
Print Assumptions C10_tables.

(* The second clause - "if the reader fails with an I/O error, ReadFile returns an error" - on the model, for EVERY input
   (so for every failure offset of every file: the model of a reader failing after k bytes is the first k bytes with the
   failing flag): ReadFile never reports success.  front/TokStrict.v: over a failing reader every Next() that returns false
   leaves an error recorded, and it is never the clean-EOF marker Next() would remove (an invariant through every builder of
   the tokenizer, with the fuel bounds that make the fuel-exhausted branches unreachable); front/ParseStrict.v: the parser
   only moves forward through such results, and the top-level loop can return a File only at an end-of-input result, whose
   error then makes it fail.  (Running out of fuel or of precomputed results is not excluded here: it is never observed.) *)
Require Import Bebop.front.TokStrict Bebop.front.ParseStrict.
Definition C10_reader_failure_statement : Prop := forall input f s', read_file input true <> POk f s'.
Theorem C10_reader_failure : C10_reader_failure_statement.
Proof. exact read_file_failing_reader. Qed.
(* not vacuous: the same inputs are accepted when the reader ends cleanly *)
Example C10_reader_failure_witness :
  (exists f s, read_file [115; 116; 114; 117; 99; 116; 32; 65; 32; 123; 125; 10]%N false = POk f s) /\
  read_file [115; 116; 114; 117; 99; 116; 32; 65; 32; 123; 125; 10]%N true = PErr /\ read_file [] true = PErr.
Proof. split; [eexists; eexists; vm_compute; reflexivity|split; vm_compute; reflexivity]. Qed.
Print Assumptions C10_reader_failure.

(* "ReadFile always terminates": on the model, for EVERY input and whether or not the reader fails, ReadFile returns a File or
   an error - it neither panics, nor runs a loop out of its fuel, nor asks for more Next() results than were precomputed.
   (1) front/ParseFuel.v - for EVERY list of Next() results (whatever tokens, and `false` answers - end of input, lexical
   error, failing reader - anywhere and in any number) no loop of the parser model runs out of fuel when the top-level loop is
   given 2 * (number of tokens) + 2 units: every way around every loop (top level, struct / message / union / enum bodies,
   nested field types, array suffixes, flag expressions, end-of-line comments) lowers the potential
   2 * (tokens not yet delivered) + (1 if a token is kept for re-delivery); a `false` leaves it unchanged and every loop leaves
   on it; p_unnext raises it by one only after a delivery lowered it.  So the parser makes at most 2 * tokens + 2 loop
   iterations in all, however the stream ends.  (2) front/TokProgress.v - every Next() made with bytes left leaves strictly
   fewer and one made at the end of the input answers `false`: at most one token per input byte, and only `false` answers
   after as many calls as there were bytes.  (3) front/ParseEnd.v - once only `false` answers are left, a delivery can only be
   the kept token, so what any function of the parser can still consume before it returns or fails is bounded by a constant;
   `margin` (120) `false` answers at the end of the list are more than that.  PFuel = a loop ran out of fuel; PEnd = the
   parser asked for more results than the list holds. *)
Require Import Bebop.front.ParseFuel Bebop.front.TokFuel Bebop.front.TokProgress Bebop.front.ParseEnd.
Definition C10_terminates_statement : Prop :=
  (forall input fails, (exists f s, read_file input fails = POk f s) \/ read_file input fails = PErr) /\
  (forall rs0 cur0 e0 g f cm opc ro bf, (2 * count_nt rs0 + 2 <= g)%nat ->
     top_loop g f cm opc ro bf {| rs := rs0; cur := cur0; keep := false; perrs := e0 |} <> PFuel) /\
  (forall n s, (count_tok (next_results n s) <= len s)%nat /\ forall k, (len s <= k)%nat -> Forall is_nf (skipn k (next_results n s))).
Theorem C10_terminates : C10_terminates_statement.
Proof.
  split; [|split; [exact loops_never_out_of_fuel|intros n s; split; [exact (tokens_le_bytes n s)|exact (results_after_input n s)]]].
  intros input fails. pose proof (read_file_never_panics input fails) as H1. pose proof (read_file_loops_terminate input fails) as H2.
  pose proof (read_file_never_short input fails) as H3.
  destruct (read_file input fails) as [f s| | | |]; [left; eauto|right; reflexivity|contradiction|contradiction|contradiction].
Qed.
(* not vacuous: with too little fuel the loop does run out (so PFuel is reachable in the model), and a result list that ends
   too early is reported as PEnd, not as PFuel *)
Example C10_terminates_witness :
  let f0 := {| structs := []; messages := []; enums := []; unions := []; consts := []; imports := []; gopackage := [] |} in
  let nl := NT {| kind := kNewline; concrete := [10%N] |} [] in
  top_loop 2 f0 [] 0%N false false {| rs := [nl; nl; nl; NF []]; cur := tok0; keep := false; perrs := [] |} = PFuel /\
  (exists f s, top_loop 8 f0 [] 0%N false false {| rs := [nl; nl; nl; NF []]; cur := tok0; keep := false; perrs := [] |} = POk f s) /\
  top_loop 8 f0 [] 0%N false false {| rs := [nl; nl; nl]; cur := tok0; keep := false; perrs := [] |} = PEnd.
Proof. split; [vm_compute; reflexivity|split; [eexists; eexists; vm_compute; reflexivity|vm_compute; reflexivity]]. Qed.
Print Assumptions C10_terminates.

(* ... and the tokenizer's share (front/TokFuel.v): Next() on the model, with its fuel made a parameter, gives the same answer
   for EVERY amount of fuel above remaining bytes + 1 (the model passes remaining bytes + 2), and so do the builders it starts
   above remaining bytes: the fuel-exhausted branches of Tok.v, which return normal-looking values, are never what an answer
   comes from - each way around each loop of the tokenizer follows a successful ReadByte / ReadRune, which shortens the input. *)
Require Import Bebop.front.TokFuel.
Definition C10_tokenizer_fuel_statement : Prop :=
  (forall s g, S (len s) < g -> next_with g s = next s) /\
  (forall g s conc k a b c d, len s < g -> number_loop g s conc k a b c d = number_loop (S (len s)) s conc k a b c d) /\
  (forall g s conc e, len s < g -> string_lit g s conc e = string_lit (S (len s)) s conc e) /\
  (forall g s conc l, len s < g -> block_comment g s conc l = block_comment (S (len s)) s conc l) /\
  (forall g s, len s < g -> skip_ws g s = skip_ws (S (len s)) s).
Theorem C10_tokenizer_fuel : C10_tokenizer_fuel_statement.
Proof. exact (conj next_fuel_immaterial builders_fuel_immaterial). Qed.
(* not vacuous: with less fuel the answer does change *)
Example C10_tokenizer_fuel_witness :
  let s := {| buf := {| rest := [115; 116; 114; 117; 99; 116; 32]%N; lastByte := None; lastRune := None; failing := false |}; errs := [] |} in
  next_with 3 s <> next s /\ next_with 9 s = next s /\ next_with 100 s = next s.
Proof. cbv zeta. split; [vm_compute; discriminate|split; vm_compute; reflexivity]. Qed.
Print Assumptions C10_tokenizer_fuel.

(* The third clause, first half - "if ReadFile reports success then the whole input was consumed" - on the model and for EVERY
   input: when a File is returned, every Next() result the parser has not used is a `false` answer; no token of the input was
   left unread (front/ParseDone.v), because the top-level loop returns a File only on a `false` with no error recorded, which
   the tokenizer gives only when no byte is left (front/TokClean.v).  The second half (appending one more definition) is
   decided by the run: it needs the tokenizer's behaviour across the junction of two texts. *)
Require Import Bebop.front.TokClean Bebop.front.ParseDone.
Definition C10_consumes_input_statement : Prop :=
  (forall input fails f s', read_file input fails = POk f s' -> Forall is_nf (rs s')) /\
  (forall s, nk s -> match next s with R ot s1 => nk s1 /\ (ot = None -> errs s1 = [] -> len s1 = 0) | RPanic => True end).
Theorem C10_consumes_input : C10_consumes_input_statement.
Proof. exact (conj read_file_consumes_input next_clean). Qed.
(* not vacuous: a File is returned for this text, and `false` answers are what is left *)
Example C10_consumes_input_witness :
  exists f s', read_file [115; 116; 114; 117; 99; 116; 32; 65; 32; 123; 125; 10]%N false = POk f s' /\ length (rs s') = 126 /\ structs f <> [].
Proof. eexists; eexists. vm_compute. repeat split. discriminate. Qed.
Print Assumptions C10_consumes_input.

(* "... and never silently drops part of a schema": for EVERY input, when a File is returned the list of Next() results is
   used ++ [a `false` with no error] ++ left, where no result the parser was given carried a tokenizer error (front/TokSticky.v:
   every builder only appends to the error list and Next() removes nothing but the end-of-input marker it has just recorded,
   so an error, once there, is still there at the `false` the parser returns on, which then fails it) and `left` holds only
   `false` answers.  This is the universal form of the first defect repaired under this property (tokenizer errors between
   definitions were dropped: c7a5e63). *)
Require Import Bebop.front.TokSticky.
Definition C10_no_error_dropped_statement : Prop :=
  forall input fails f s', read_file input fails = POk f s' ->
    exists used, rs (st0 input fails) = used ++ NF [] :: rs s' /\ Forall (fun y => ~ dirty y) used /\ Forall is_nf (rs s').
Theorem C10_no_error_dropped : C10_no_error_dropped_statement.
Proof. exact read_file_no_error_dropped. Qed.
(* not vacuous: a stray byte after a complete definition is an error (it used to be accepted), and so is an unterminated comment *)
Example C10_no_error_dropped_witness :
  read_file [115; 116; 114; 117; 99; 116; 32; 65; 32; 123; 125; 10; 35]%N false = PErr /\
  read_file [115; 116; 114; 117; 99; 116; 32; 65; 32; 123; 125; 10; 47; 42]%N false = PErr /\
  (exists f s, read_file [115; 116; 114; 117; 99; 116; 32; 65; 32; 123; 125; 10]%N false = POk f s).
Proof. split; [vm_compute; reflexivity|split; [vm_compute; reflexivity|eexists; eexists; vm_compute; reflexivity]]. Qed.
Print Assumptions C10_no_error_dropped.

(* The second half of that clause on the class of schemas the inversion theorems cover (front/Schema.v): whatever text of a
   schema dl ReadFile is given, in any layout, the same text with the text of one more definition d after it is read to a
   File that holds everything the first held, in the same order, followed by what d states. *)
Require Import Bebop.front.LexInv Bebop.front.ParseInv Bebop.front.FmtInv Bebop.front.MsgInv Bebop.front.GenInv Bebop.front.Items Bebop.front.TyInv Bebop.front.TyMsg Bebop.front.TyItems Bebop.front.TyUnion Bebop.front.TyUnionItem Bebop.front.TyOpcode Bebop.front.TyEnum Bebop.front.TyDep Bebop.front.TyDoc Bebop.front.TyDec Bebop.front.TyImport Bebop.front.Schema.
Definition C10_append_schema_statement : Prop :=
  forall dl d lay1 lay2 tail,
    Forall sdefn_ok dl -> sdefn_ok d ->
    map snd lay1 = schema_lexemes dl -> map snd lay2 = schema_lexemes [d] ->
    Forall (fun p => hws (fst p)) (lay1 ++ lay2) -> sep_ok lay1 -> sep_ok (lay1 ++ lay2) -> hws tail ->
    exists f1 f2 s1 s2,
      read_file (render lay1 []) false = POk f1 s1 /\
      read_file (render lay1 (render lay2 tail)) false = POk f2 s2 /\
      structs f2 = structs f1 ++ structs_of d /\ messages f2 = messages f1 ++ messages_of d /\
      enums f2 = enums f1 ++ enums_of d /\ unions f2 = unions f1 ++ unions_of d /\ imports f2 = imports f1 ++ imports_of d /\
      consts f2 = consts f1 /\ gopackage f2 = gopackage f1.
Theorem C10_append_schema : C10_append_schema_statement.
Proof.
  intros dl d lay1 lay2 tail Hdl Hd H1 H2 Hws Hsep1 Hsep Ht.
  assert (Hall : Forall sdefn_ok (dl ++ [d])) by (apply Forall_app; split; [exact Hdl|constructor; [exact Hd|constructor]]).
  assert (Hlex : map snd (lay1 ++ lay2) = schema_lexemes (dl ++ [d])).
  { rewrite map_app, H1, H2. unfold schema_lexemes, xlex. rewrite !map_app, flat_map_app. reflexivity. }
  destruct (schema_laws (dl ++ [d]) (lay1 ++ lay2) tail Hall Hlex Hws Hsep Ht) as (y & _ & _ & _ & _ & (s2 & R2)).
  rewrite render_app in R2.
  assert (Hws1 : Forall (fun p => hws (fst p)) lay1) by (apply Forall_app in Hws; tauto).
  destruct (schema_laws dl lay1 [] Hdl H1 Hws1 Hsep1 (Forall_nil _)) as (y1 & _ & _ & _ & _ & (s1 & R1)).
  destruct (schema_file_spec (dl ++ [d])) as (A & B & C & D & E & F & G).
  destruct (schema_file_spec dl) as (A1 & B1 & C1 & D1 & E1 & F1 & G1).
  rewrite flat_map_app in A, B, C, D, F. cbn [flat_map] in A, B, C, D, F. rewrite app_nil_r in A, B, C, D, F.
  exists (schema_file dl), (schema_file (dl ++ [d])), s1, s2.
  rewrite A, B, C, D, E, F, G, A1, B1, C1, D1, E1, F1, G1. repeat split; assumption.
Qed.
Print Assumptions C10_append_schema.
Lemma Forall_map_x (dl : list sdefn) : Forall sdefn_ok dl -> Forall xel_ok (map xel_of dl).
Proof. induction 1; cbn [map]; constructor; [now apply xel_of_ok|assumption]. Qed.
(* the hypotheses are met: `struct S {}` in its canonical layout followed by a message with one field *)
Example C10_append_schema_witness :
  let S := {| ic := 83%N; itl := [] |} in let M := {| ic := 77%N; itl := [] |} in
  let i32 := {| ic := 105%N; itl := [110; 116; 51; 50]%N |} in let x := {| ic := 120%N; itl := [] |} in
  let one := {| xc := 49%N; xds := []; xv := 1%N |} in
  let dl := [SStruct S [] 0] in let d := SMessage M [(one, (LSimple i32 0, x))] 0 in
  let lay1 := glayout (map xel_of dl) in let lay2 := glayout (map xel_of [d]) in
  Forall sdefn_ok dl /\ sdefn_ok d /\ map snd lay1 = schema_lexemes dl /\ map snd lay2 = schema_lexemes [d] /\
  Forall (fun p => hws (fst p)) (lay1 ++ lay2) /\ sep_ok lay1 /\ sep_ok (lay1 ++ lay2) /\
  (exists f s, read_file (render lay1 (render lay2 [])) false = POk f s /\ length (messages f) = 1 /\ length (structs f) = 1).
Proof.
  cbv zeta.
  assert (Hok1 : Forall sdefn_ok [SStruct {| ic := 83%N; itl := [] |} [] 0]) by (repeat constructor; cbn; intuition discriminate).
  assert (Hok2 : Forall sdefn_ok [SMessage {| ic := 77%N; itl := [] |} [({| xc := 49%N; xds := []; xv := 1%N |}, (LSimple {| ic := 105%N; itl := [110; 116; 51; 50]%N |} 0, {| ic := 120%N; itl := [] |}))] 0])
    by (repeat constructor; cbn; intuition discriminate).
  split; [exact Hok1|]. split; [inversion Hok2; assumption|].
  assert (Hx1 : Forall xel_ok (map xel_of _)) by (eapply Forall_map_x; exact Hok1).
  assert (Hx2 : Forall xel_ok (map xel_of _)) by (eapply Forall_map_x; exact Hok2).
  split; [exact (glayout_lex _ Hx1)|]. split; [exact (glayout_lex _ Hx2)|].
  split; [vm_compute; repeat constructor|]. split; [exact (glayout_sep _ Hx1)|]. split; [vm_compute; repeat split; try exact I; first [left; intros E0; discriminate E0|right; eexists; eexists; reflexivity]|].
  eexists; eexists. vm_compute. repeat split.
Qed.
