(* C10: ReadFile always terminates and never silently drops part of a schema.
   front/Tok.v + front/Parse.v are executable ports of tokenize.go, token_tree.go, parse.go, parse_expr.go and eval_expr.go
   (the tokenizer over a model of bufio.Reader; the parser over the precomputed list of Next() results); the correspondence
   check (lib/front.py, check_c10) compares their result with the implementation's on every input and evaluates the
   property directly.  Termination of the MODEL is by construction (structural recursion on fuel); that the fuel the
   driver passes suffices is observed on every run (no FUEL outcome), not yet proved.  Proved: (1) C10_no_panic - for EVERY
   input and whether or not the reader fails, neither a Next() call nor ReadFile panics (every UnreadByte follows a
   successful ReadByte; a negative shift count is an error); (2) C10_partial - the tokenizer's behaviour on the token classes
   the top-level loop dispatches on (for every amount of leading horizontal whitespace). *)
Require Import Bebop.front.Tok Bebop.front.TokInv Bebop.front.Parse Bebop.front.TokSafe Bebop.front.ParseSafe.
From Coq Require Import List NArith.
Import ListNotations.

Definition C10_partial_statement : Prop :=
  (* a single-byte terminal is recognised after any run of spaces / tabs / CRs, and exactly it is consumed *)
  (forall c k ws r lb lr, term1 c = Some k -> Forall (fun c0 => is_hws c0 = true) ws ->
     exists lb' lr', next (st (ws ++ c :: r) lb lr) = R (Some {| kind := k; concrete := [c] |}) (st r lb' lr')) /\
  (* an identifier or keyword is read up to, and not including, the first non-identifier byte *)
  (forall c tl d ws r lb lr, is_letter c = true -> Forall (fun c0 => is_idc c0 = true) tl -> is_idc d = false ->
     Forall (fun c0 => is_hws c0 = true) ws ->
     exists lb' lr', next (st (ws ++ c :: tl ++ d :: r) lb lr) = R (Some {| kind := keyword (c :: tl); concrete := c :: tl |}) (st (d :: r) lb' lr')).

Theorem C10_partial : C10_partial_statement.
Proof. split; [exact next_term1|exact next_word]. Qed.
Print Assumptions C10_partial.

Definition C10_no_panic_statement : Prop :=
  (forall s, next s <> RPanic) /\ (forall input fails, read_file input fails <> PPanic).
Theorem C10_no_panic : C10_no_panic_statement.
Proof. exact (conj next_never_panics read_file_never_panics). Qed.

(* the two inputs on which the code did panic before the repairs (be3f98d, 8cda268) are errors now *)
Example C10_former_panics :
  (exists r, read_file [] true = r /\ r = PErr) /\
  read_file [91;102;108;97;103;115;93;32;101;110;117;109;32;69;58;105;110;116;51;50;32;123;65;32;61;32;49;32;60;60;32;45;49;59;125]%N false = PErr.
Proof. split; [eexists; split; [reflexivity|vm_compute; reflexivity]|vm_compute; reflexivity]. Qed.
Print Assumptions C10_no_panic.

(* The tokenizer model's lexical tables ARE the source's (front/TokTie.v over gen/TokTable.v, which translator T6 regenerates
   from token.go and tokenize.go on every run): the kind numbers; the keyword map, both ways; at each of the 7 nodes of the
   model's token tree and each of the 256 byte values, what the model does (no successor / descend to which node / build
   which kind of token) is what newTokenTree's tree has at that path, and every inner node of that tree is a node of the
   model; the skipped bytes; the byte chosen by the greedy error correction, which always has a successor. *)
Require Import Bebop.gen.TokTable Bebop.front.TokTie.
Definition C10_tables_statement : Prop :=
  (forall w k, In (w, k) go_keywords -> keyword w = k /\ k <> kIdent) /\
  (forall c, keyword c <> kIdent -> In (c, keyword c) go_keywords) /\
  (forall n b, (b < 256)%N -> succ_tie n b = true) /\
  (forall e q, In e go_tree -> In q (proper_prefixes (fst e)) -> exists n, path_of n = q) /\
  (forall n b, (b < 256)%N -> skips n b = match n with NRoot => existsb (N.eqb b) go_skips | _ => false end) /\
  (forall n, n <> NRoot -> first_valid n = go_first_valid (path_of n) /\ succ n (first_valid n) <> NoSucc) /\
  (kIdent = go_tokenKindIdent /\ kInt = go_tokenKindIntegerLiteral /\ kString = go_tokenKindStringLiteral /\ kNewline = go_tokenKindNewline /\
   kLineC = go_tokenKindLineComment /\ kBlockC = go_tokenKindBlockComment).
Theorem C10_tables : C10_tables_statement.
Proof.
  split; [exact keywords_sound|]. split; [exact keywords_complete|]. split; [exact tree_tie|]. split; [exact tree_nodes|].
  split; [exact skips_tie|]. split; [intros n Hn; split; [exact (first_valid_tie n Hn)|exact (first_valid_has_successor n Hn)]|].
  repeat split; reflexivity.
Qed.
Print Assumptions C10_tables.

(* The second clause - "if the reader fails with an I/O error, ReadFile returns an error" - on the model, for EVERY input
   (so for every failure offset of every file: the model of a reader failing after k bytes is the first k bytes with the
   failing flag): ReadFile never reports success.  front/TokStrict.v: over a failing reader every Next() that returns false
   leaves an error recorded, and it is never the clean-EOF marker Next() would remove (an invariant through every builder of
   the tokenizer, with the fuel bounds that make the fuel-exhausted branches unreachable); front/ParseStrict.v: the parser
   only moves forward through such results, and the top-level loop can return a File only at an end-of-input result, whose
   error then makes it fail.  (Running out of fuel or of precomputed results is not excluded here: it is never observed.) *)
Require Import Bebop.front.TokStrict Bebop.front.ParseStrict.
Definition C10_reader_failure_statement : Prop := forall input f s', read_file input true <> POk f s'.
Theorem C10_reader_failure : C10_reader_failure_statement.
Proof. exact read_file_failing_reader. Qed.
(* not vacuous: the same inputs are accepted when the reader ends cleanly *)
Example C10_reader_failure_witness :
  (exists f s, read_file [115; 116; 114; 117; 99; 116; 32; 65; 32; 123; 125; 10]%N false = POk f s) /\
  read_file [115; 116; 114; 117; 99; 116; 32; 65; 32; 123; 125; 10]%N true = PErr /\ read_file [] true = PErr.
Proof. split; [eexists; eexists; vm_compute; reflexivity|split; vm_compute; reflexivity]. Qed.
Print Assumptions C10_reader_failure.
