(* C17: formatting is idempotent.  The full statement on the model (C17_statement, front/FmtFacts.v) is FALSE, as it is of
   the code: the [flags] text of the known finding is formatted to an output that a second pass changes again. *)
Require Import Bebop.front.Tok Bebop.front.Parse Bebop.front.Fmt Bebop.front.FmtFacts.

Definition C17_refuted_statement : Prop := ~ C17_statement /\ not_fixed_point w_flags.

Theorem C17_refuted : C17_refuted_statement.
Proof. split; [exact (not_fixed_refutes _ flags_not_fixed)|exact flags_not_fixed]. Qed.
Print Assumptions C17_refuted.
