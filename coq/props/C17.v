(* C17: formatting is idempotent.  The full statement on the model is C17_statement (front/FmtFacts.v).  Decided by the
   correspondence run (format twice, compare bytes; model compared byte for byte).  Until the formatter was repaired the
   statement was false ([flags] text); with the repairs mirrored in the model the former witnesses are fixed points after one
   pass.  No general proof exists.  Proved: the instances, and that the second pass never panics either. *)
Require Import Bebop.front.Tok Bebop.front.Parse Bebop.front.Fmt Bebop.front.FmtFacts Bebop.front.FmtSafe.

Definition C17_partial_statement : Prop :=
  (forall input y s, format input = POk y s -> format y <> PPanic) /\
  holds17 w_typed_enum /\ holds17 w_array2 /\ holds17 w_import /\ holds17 w_flags.

Theorem C17_partial : C17_partial_statement.
Proof.
  split; [intros input y s _; exact (format_never_panics y)|].
  split; [exact typed_enum_17|]. split; [exact array2_17|]. split; [exact import_17|exact flags_17].
Qed.
Print Assumptions C17_partial.
