(* C17: formatting is idempotent.  The full statement on the model is C17_statement (front/FmtFacts.v).  Decided by the
   correspondence run (format twice, compare bytes; model compared byte for byte).  Until the formatter was repaired the
   statement was false ([flags] text); with the repairs mirrored in the model the former witnesses are fixed points after one
   pass.  No general proof exists.  Proved: the instances, and that the second pass never panics either. *)
Require Import Bebop.front.Tok Bebop.front.Parse Bebop.front.Fmt Bebop.front.FmtFacts Bebop.front.FmtSafe.
Require Import Bebop.front.LexInv Bebop.front.ParseInv Bebop.front.FmtInv Bebop.front.MsgInv Bebop.front.GenInv Bebop.front.Items Bebop.front.TyInv Bebop.front.TyMsg Bebop.front.TyItems Bebop.front.TyUnion Bebop.front.TyUnionItem Bebop.front.TyOpcode Bebop.front.TyEnum Bebop.front.TyDep Bebop.front.TyDoc Bebop.front.TyDec Bebop.front.TyImport Bebop.front.Schema.
From Coq Require Import List.

Definition C17_partial_statement : Prop :=
  (forall input y s, format input = POk y s -> format y <> PPanic) /\
  holds17 w_typed_enum /\ holds17 w_array2 /\ holds17 w_import /\ holds17 w_flags.

Theorem C17_partial : C17_partial_statement.
Proof.
  split; [intros input y s _; exact (format_never_panics y)|].
  split; [exact typed_enum_17|]. split; [exact array2_17|]. split; [exact import_17|exact flags_17].
Qed.
Print Assumptions C17_partial.

(* Idempotence itself, proved on the core sub-language of front/ParseInv.v - for EVERY list of struct definitions and EVERY
   layout of its text (any horizontal whitespace, CRLF, blank lines between definitions): Format's output depends on the
   structs only (it is the canonical text ctext), and Format maps it to itself, byte for byte. *)
Definition C17_structs_statement : Prop :=
  forall sl l tail,
    Forall sdef_ok sl -> map snd l = schema_lex sl -> Forall (fun p => hws (fst p)) l -> sep_ok l -> hws tail ->
    exists y, (exists s, format (render l tail) = POk y s) /\ y = ctext (map bdef sl) /\ (exists s, format y = POk y s).
Theorem C17_structs : C17_structs_statement.
Proof.
  intros sl l tail H1 H2 H3 H4 H5. destruct (structs_format_laws sl l tail H1 H2 H3 H4 H5) as (y & Hf & Hy & Hi & _).
  exists y. auto.
Qed.
Print Assumptions C17_structs.

(* and with messages (front/MsgInv.v): any sequence of struct and message definitions, indices any decimal literal denoting
   1 .. 255 and distinct within a message, every layout *)
Definition C17_records_statement : Prop :=
  forall dl l tail,
    Forall defn_ok dl -> map snd l = defs_lex dl -> Forall (fun p => hws (fst p)) l -> sep_ok l -> hws tail ->
    exists y, (exists s, format (render l tail) = POk y s) /\ y = dctext (map bdn dl) /\ (exists s, format y = POk y s).
Theorem C17_records : C17_records_statement.
Proof.
  intros dl l tail H1 H2 H3 H4 H5. destruct (defs_format_laws dl l tail H1 H2 H3 H4 H5) as (y & Hf & Hy & Hi & _).
  exists y. auto.
Qed.
Print Assumptions C17_records.

(* and with enums and container types, through the item framework (front/GenInv.v, front/Items.v, front/TyItems.v, front/Schema.v):
   any sequence of struct, readonly struct, message, enum and union definitions (union branches structs or messages, front/TyUnion.v; structs and messages optionally under an [opcode(..)] line, front/TyOpcode.v; enums optionally with an integer base type, front/TyEnum.v; message fields optionally deprecated, front/TyDep.v; struct and message FIELDS optionally under `//` doc comment lines - which are also where a field's tags come from - followed by an optional [deprecated(..)] line, front/TyFDoc.v / TyFDocM.v, and likewise the MEMBERS of an enum, front/TyEDoc.v, and the MEMBERS of a union, front/TyUDoc.v; enum values and integer opcodes decimal or 0x-hexadecimal literals (front/LexInv.v: next_hexnumber), struct fields optionally followed on their line by a `//` comment - which ReadFile skips and Format keeps on that line, front/TyFEol.v; structs and messages optionally under `//` doc comment lines, front/TyDoc.v - Format writes them back unchanged and puts no blank line before them; and, generically, ANY sequence of comment and opcode lines before a struct, readonly struct, message, union or typed enum, front/TyDec.v; import lines, front/TyImport.v), field types identifiers, array[T], map[K, V] and T[]
   nested to any depth (front/TyInv.v: format_type on the tokens of a type expression), every layout *)
Definition C17_schema_statement : Prop :=
  forall dl lay tail,
    Forall sdefn_ok dl -> map snd lay = schema_lexemes dl -> Forall (fun p => hws (fst p)) lay -> sep_ok lay -> hws tail ->
    exists y, (exists s, format (render lay tail) = POk y s) /\ y = schema_canon dl /\ (exists s, format y = POk y s).
Theorem C17_schema : C17_schema_statement.
Proof.
  intros dl lay tail H1 H2 H3 H4 H5. destruct (schema_laws dl lay tail H1 H2 H3 H4 H5) as (y & Hf & Hy & Hi & _).
  exists y. auto.
Qed.
Print Assumptions C17_schema.

(* Any number of passes: on that class, formatting n+1 times gives the canonical text, whatever n is - the fixed point is reached by
   the first pass and never left - and, with C16_schema, the text after any number of passes still reads back as the File of the
   definitions.  (The check's correspondence run formats twice; this is what makes two passes enough on the class.) *)
Fixpoint format_iter (n : nat) (x : bytes) : option bytes :=
  match n with
  | O => Some x
  | S k => match format x with POk y _ => format_iter k y | _ => None end
  end.
Definition C17_schema_iter_statement : Prop :=
  forall dl lay tail n,
    Forall sdefn_ok dl -> map snd lay = schema_lexemes dl -> Forall (fun p => hws (fst p)) lay -> sep_ok lay -> hws tail ->
    format_iter (S n) (render lay tail) = Some (schema_canon dl) /\
    (exists s, read_file (schema_canon dl) false = POk (schema_file dl) s).
Theorem C17_schema_iter : C17_schema_iter_statement.
Proof.
  intros dl lay tail n H1 H2 H3 H4 H5.
  destruct (schema_laws dl lay tail H1 H2 H3 H4 H5) as (y & (s1 & Hf) & Hy & (s2 & Hi) & (s3 & Hr) & _). subst y.
  split; [|exists s3; exact Hr].
  cbn [format_iter]. rewrite Hf. clear Hf s1.
  induction n as [|n IH]; [reflexivity|]. cbn [format_iter]. rewrite Hi. exact IH.
Qed.
Print Assumptions C17_schema_iter.
