(* C04: messages stay readable across schema versions, wherever they are nested. *)
Require Import Bebop.wire.Wire Bebop.wire.WireFacts Bebop.wire.ByteDec Bebop.wire.ByteDecFacts Bebop.wire.StreamDec Bebop.wire.StreamFacts
               Bebop.wire.Evolve Bebop.wire.EvolveFacts.

(* the full property, for either decode path [dec]: a value of the NEWER schema s2 (extends s1: new message fields with
   indices s1 does not know, anywhere; deprecated marks may differ), encoded under s2 and followed by anything, is decoded
   under s1 to the value restricted to s1's fields, consuming exactly the encoding - in every nesting context, since t and
   v are arbitrary (a struct holding the evolved message followed by a sentinel is just another t) *)
Definition C04_stream_statement : Prop :=
  forall s1 s2, extends s1 s2 -> forall v t a, enc s2 t v = Some a ->
    exists f0, forall fuel, f0 <= fuel -> forall r rest,
      data (bs r) = a ++ rest -> Forall (fun l => length a <= l) (limits r) -> err r = false ->
      exists r', sdec s1 None fuel t r = Ok (restrict s1 t v, r') /\
                 data (bs r') = skipn (length a) (data (bs r)) /\ limits r' = map (fun l => l - length a) (limits r) /\ err r' = false.

(* DecodeBebop: proved, for every chunk schedule and every stack of enclosing limits *)
Theorem C04_stream : C04_stream_statement.
Proof.
  intros s1 s2 Hext v t a E. destruct (C04_stream s1 s2 Hext v t a E) as [f0 H]. exists f0. intros fuel Hf r rest D L Er.
  destruct (H fuel Hf r rest D L Er) as (r' & Hd & (A1 & A2 & A3)). exists r'. split; [exact Hd|]. split; [exact A1|]. split; [exact A2|]. now rewrite A3.
Qed.

(* UnmarshalBebop: the same statement is FALSE of the faithful model (and of the code: known finding
   C04/unmarshal/nested-evolved-message-advance-by-recomputed-size).  The witness is the repository's own lab.bop pair:
   message Old {1 x; 2 y}, New {1 x; 2 y; 3 z}; containers {1 -> s; 2 -> after}.  The parent advances past the nested message
   by the recomputed Size() of what it understood (13 bytes) instead of the 18 on the wire, and reads `after` from the
   wrong offset: it stops at the byte 3 it does not know and `after` is lost. *)
Definition s_old : schema := fun n => match n with
  | 1 => Some (DMsg [(1, TPrim PInt32); (2, TPrim PInt32)] []) | 2 => Some (DMsg [(1, TRef 1); (2, TPrim PInt32)] []) | _ => None end%N.
Definition s_new : schema := fun n => match n with
  | 1 => Some (DMsg [(1, TPrim PInt32); (2, TPrim PInt32); (3, TPrim PInt32)] []) | 2 => Some (DMsg [(1, TRef 1); (2, TPrim PInt32)] []) | _ => None end%N.
Definition v_new : value := VMsg [Some (VMsg [Some (VZ 1); Some (VZ 2); Some (VZ 3)]); Some (VZ 99)].

Lemma old_new_extends : extends s_old s_new.
Proof.
  intros n. unfold s_old, s_new. destruct n as [|[[]|[]|]]; cbn; auto.
  - exists []. split; [reflexivity|]. split; [repeat constructor; cbn; intuition discriminate|cbn; intuition discriminate].
  - exists [(3, TPrim PInt32)]%N. split; [reflexivity|]. split; [repeat constructor; cbn; intuition discriminate|cbn; intuition discriminate].
Qed.

Theorem C04_byte_refuted :
  exists a, enc s_new (TRef 2) v_new = Some a /\
    restrict s_old (TRef 2) v_new = VMsg [Some (VMsg [Some (VZ 1); Some (VZ 2)]); Some (VZ 99)] /\
    exists adv e, dec3 s_old {| safe := true; lim := None |} 20 (TRef 2) a = Ok (VMsg [Some (VMsg [Some (VZ 1); Some (VZ 2)]); None], adv, e).
Proof. eexists. split; [vm_compute; reflexivity|]. split; [vm_compute; reflexivity|]. eexists. eexists. vm_compute. reflexivity. Qed.

(* and the stream decoder does return the right value on the same bytes (computed) *)
Example C04_stream_witness :
  exists a r', enc s_new (TRef 2) v_new = Some a /\
    sdec s_old None 20 (TRef 2) {| bs := {| data := a ++ [7]%N; sched := [1; 2; 1; 1; 3] |}; limits := []; err := false |}
    = Ok (VMsg [Some (VMsg [Some (VZ 1); Some (VZ 2)]); Some (VZ 99)], r') /\ data (bs r') = [7]%N.
Proof. eexists. eexists. split; [vm_compute; reflexivity|]. split; vm_compute; reflexivity. Qed.

Print Assumptions C04_stream.
