module verif

go 1.21

require github.com/200sc/bebop v0.0.0

replace github.com/200sc/bebop => /repo
