// Translator T5: the appends File.Generate makes onto the slices of the File it received -> coq/gen/GenAppends.v.
// usage: t5 <gen.go> <out.v>
// Generate has a VALUE receiver: its File is a copy, but the slice headers in it share the caller's backing arrays.
// For every field X of the receiver that the body appends to (f.X = append(f.X, ...)) the translator records how many
// append statements there are and whether, on every path that reaches one, the slice has first been cut down to
// cap = len (f.X = f.X[:len(f.X):len(f.X)], slices.Clip(f.X)) or copied (slices.Clone(f.X), append([]T(nil), f.X...)).
// "On every path" is decided syntactically and conservatively:
//   - the cut is a top-level statement of the body, or sits directly in an `if len(G) != 0 { ... }` block at top level;
//   - in the guarded case every append to X sits inside a `for ... range G` loop (so it runs only when len(G) != 0);
//   - the cut precedes every append to X in source order and is not inside a loop.
// Anything else the body does to a receiver slice (assigning it from another expression, appending it into a
// different variable, taking its address) is a translation failure (exit 2): the tie to the source is then broken.
package main

import (
	"bytes"
	"fmt"
	"go/ast"
	"go/parser"
	"go/printer"
	"go/token"
	"os"
	"sort"
)

var fset = token.NewFileSet()

func text(n ast.Node) string {
	var b bytes.Buffer
	printer.Fprint(&b, fset, n)
	return b.String()
}

type ctx struct {
	guard   string // G of the enclosing top-level `if len(G) != 0`, "" if none
	ranges  []string
	inLoop  bool
	topOnly bool // directly in the body or directly in a top-level if block
}

type site struct {
	pos int
	c   ctx
}

type field struct {
	cuts    []site
	appends []site
	other   []string
}

func main() {
	if len(os.Args) != 3 {
		fmt.Fprintln(os.Stderr, "usage: t5 gen.go out.v")
		os.Exit(2)
	}
	file, err := parser.ParseFile(fset, os.Args[1], nil, 0)
	if err != nil {
		fmt.Fprintln(os.Stderr, err)
		os.Exit(2)
	}
	var fn *ast.FuncDecl
	for _, d := range file.Decls {
		if f, ok := d.(*ast.FuncDecl); ok && f.Name.Name == "Generate" && f.Recv != nil && len(f.Recv.List) == 1 {
			if id, ok := f.Recv.List[0].Type.(*ast.Ident); ok && id.Name == "File" {
				fn = f
			} else if st, ok := f.Recv.List[0].Type.(*ast.StarExpr); ok {
				if id, ok := st.X.(*ast.Ident); ok && id.Name == "File" {
					fmt.Fprintln(os.Stderr, "t5: File.Generate has a pointer receiver: every append writes through the caller's File")
					os.Exit(2)
				}
			}
		}
	}
	if fn == nil || len(fn.Recv.List[0].Names) != 1 {
		fmt.Fprintln(os.Stderr, "t5: func (f File) Generate not found")
		os.Exit(2)
	}
	recv := fn.Recv.List[0].Names[0].Name
	fields := map[string]*field{}
	get := func(n string) *field {
		if fields[n] == nil {
			fields[n] = &field{}
		}
		return fields[n]
	}
	var failures []string
	// f.X for the receiver
	recvField := func(e ast.Expr) (string, bool) {
		if s, ok := e.(*ast.SelectorExpr); ok {
			if id, ok := s.X.(*ast.Ident); ok && id.Name == recv && id.Obj != nil && id.Obj.Decl == fn.Recv.List[0] {
				return s.Sel.Name, true
			}
		}
		return "", false
	}
	isLenOf := func(e ast.Expr, x string) bool {
		c, ok := e.(*ast.CallExpr)
		if !ok || len(c.Args) != 1 {
			return false
		}
		id, ok := c.Fun.(*ast.Ident)
		if !ok || id.Name != "len" {
			return false
		}
		n, ok := recvField(c.Args[0])
		return ok && n == x
	}
	// is rhs a cut / copy of f.X ?
	isCut := func(rhs ast.Expr, x string) bool {
		switch r := rhs.(type) {
		case *ast.SliceExpr:
			n, ok := recvField(r.X)
			return ok && n == x && r.Slice3 && r.Low == nil && isLenOf(r.High, x) && isLenOf(r.Max, x)
		case *ast.CallExpr:
			name := text(r.Fun)
			if (name == "slices.Clip" || name == "slices.Clone") && len(r.Args) == 1 {
				n, ok := recvField(r.Args[0])
				return ok && n == x
			}
			if name == "append" && len(r.Args) == 2 && r.Ellipsis.IsValid() {
				if c, ok := r.Args[0].(*ast.CallExpr); ok && len(c.Args) == 1 && text(c.Args[0]) == "nil" {
					n, ok := recvField(r.Args[1])
					return ok && n == x
				}
			}
		}
		return false
	}
	var walk func(stmts []ast.Stmt, c ctx)
	walkStmt := func(s ast.Stmt, c ctx) {}
	walkStmt = func(s ast.Stmt, c ctx) {
		switch st := s.(type) {
		case *ast.AssignStmt:
			for i, lhs := range st.Lhs {
				x, ok := recvField(lhs)
				if !ok || i >= len(st.Rhs) {
					continue
				}
				rhs := st.Rhs[i]
				if isCut(rhs, x) {
					get(x).cuts = append(get(x).cuts, site{int(st.Pos()), c})
					continue
				}
				if call, ok := rhs.(*ast.CallExpr); ok && text(call.Fun) == "append" && len(call.Args) >= 1 {
					if n, ok := recvField(call.Args[0]); ok && n == x {
						get(x).appends = append(get(x).appends, site{int(st.Pos()), c})
						continue
					}
				}
				// scalars and maps of the copy may be assigned freely; a slice may not
				get(x).other = append(get(x).other, text(st))
			}
			// an append of a receiver slice into something else shares / writes the caller's array
			for i, rhs := range st.Rhs {
				if call, ok := rhs.(*ast.CallExpr); ok && text(call.Fun) == "append" && len(call.Args) >= 1 {
					if n, ok := recvField(call.Args[0]); ok {
						if i >= len(st.Lhs) {
							failures = append(failures, "append of "+recv+"."+n+" not assigned back: "+text(st))
						} else if l, ok := recvField(st.Lhs[i]); !ok || l != n {
							failures = append(failures, "append of "+recv+"."+n+" assigned elsewhere: "+text(st))
						}
					}
				}
			}
		case *ast.IfStmt:
			inner := c
			inner.topOnly = false
			if c.topOnly && c.guard == "" && st.Init == nil && st.Else == nil {
				if be, ok := st.Cond.(*ast.BinaryExpr); ok && be.Op == token.NEQ && text(be.Y) == "0" {
					if call, ok := be.X.(*ast.CallExpr); ok && text(call.Fun) == "len" && len(call.Args) == 1 {
						inner.guard = text(call.Args[0])
						inner.topOnly = true
					}
				}
			}
			walk(st.Body.List, inner)
			if st.Else != nil {
				e := c
				e.topOnly = false
				walkStmt(st.Else, e)
			}
		case *ast.BlockStmt:
			e := c
			e.topOnly = false
			walk(st.List, e)
		case *ast.RangeStmt:
			e := c
			e.topOnly = false
			e.inLoop = true
			e.ranges = append(append([]string{}, c.ranges...), text(st.X))
			walk(st.Body.List, e)
		case *ast.ForStmt:
			e := c
			e.topOnly = false
			e.inLoop = true
			walk(st.Body.List, e)
		case *ast.SwitchStmt:
			for _, cc := range st.Body.List {
				e := c
				e.topOnly = false
				walk(cc.(*ast.CaseClause).Body, e)
			}
		case *ast.TypeSwitchStmt:
			for _, cc := range st.Body.List {
				e := c
				e.topOnly = false
				walk(cc.(*ast.CaseClause).Body, e)
			}
		case *ast.LabeledStmt:
			walkStmt(st.Stmt, c)
		}
	}
	walk = func(stmts []ast.Stmt, c ctx) {
		for _, s := range stmts {
			walkStmt(s, c)
		}
	}
	walk(fn.Body.List, ctx{topOnly: true})
	// &f.X anywhere
	ast.Inspect(fn.Body, func(n ast.Node) bool {
		if u, ok := n.(*ast.UnaryExpr); ok && u.Op == token.AND {
			if x, ok := recvField(u.X); ok {
				failures = append(failures, "address of "+recv+"."+x+" taken")
			}
		}
		return true
	})
	names := []string{}
	for n, f := range fields {
		if len(f.appends) > 0 {
			names = append(names, n)
			for _, o := range f.other {
				failures = append(failures, "receiver slice "+n+" assigned from an expression the translator does not know: "+o)
			}
		}
	}
	sort.Strings(names)
	if len(failures) > 0 {
		for _, f := range failures {
			fmt.Fprintln(os.Stderr, "t5:", f)
		}
		os.Exit(2)
	}
	var b bytes.Buffer
	b.WriteString("(* GENERATED by translator T5 (go/cmd/t5) from gen.go (func (f File) Generate) on every run -- do not edit *)\n")
	b.WriteString("From Coq Require Import List String.\nImport ListNotations.\nOpen Scope string_scope.\n\n")
	b.WriteString("(* receiver slice, number of append statements, cut down to cap = len (or copied) before every one of them *)\n")
	b.WriteString("Definition generate_appends : list (string * nat * bool) := [")
	for i, n := range names {
		f := fields[n]
		ok := len(f.cuts) > 0
		var first site
		if ok {
			first = f.cuts[0]
			if first.c.inLoop || !first.c.topOnly {
				ok = false
			}
		}
		for _, a := range f.appends {
			if !ok {
				break
			}
			if a.pos < first.pos {
				ok = false
			}
			if first.c.guard != "" {
				in := false
				for _, r := range a.c.ranges {
					if r == first.c.guard {
						in = true
					}
				}
				if !in {
					ok = false
				}
			}
		}
		if i > 0 {
			b.WriteString("; ")
		}
		fmt.Fprintf(&b, "(%q, %d, %v)", n, len(f.appends), ok)
	}
	b.WriteString("].\n")
	if err := os.WriteFile(os.Args[2], b.Bytes(), 0o644); err != nil {
		fmt.Fprintln(os.Stderr, err)
		os.Exit(2)
	}
}
