// tcheck: type-check generated Go files (one package per file) against /repo's bebop and iohelp packages with go/types and
// the source importer; also checks that every named struct type with a MarshalBebop method implements bebop.Record.
// stdin: one path per line; stdout: ok | err <first error>
package main

import (
	"bufio"
	"fmt"
	"go/ast"
	"go/importer"
	"go/parser"
	"go/token"
	"go/types"
	"os"
	"strings"
)

func main() {
	fset := token.NewFileSet()
	imp := importer.ForCompiler(fset, "source", nil)
	in := bufio.NewScanner(os.Stdin)
	in.Buffer(make([]byte, 1<<20), 1<<20)
	out := bufio.NewWriter(os.Stdout)
	defer out.Flush()
	for in.Scan() {
		path := strings.TrimSpace(in.Text())
		if path == "" {
			continue
		}
		f, err := parser.ParseFile(fset, path, nil, 0)
		if err != nil {
			fmt.Fprintln(out, "err parse: "+strings.ReplaceAll(err.Error(), "\n", " "))
			out.Flush()
			continue
		}
		var first error
		conf := types.Config{Importer: imp, Error: func(e error) {
			if first == nil {
				first = e
			}
		}}
		pkg, _ := conf.Check("p", fset, []*ast.File{f}, nil)
		if first != nil {
			msg := first.Error()
			if i := strings.Index(msg, ": "); i >= 0 {
				msg = msg[i+2:]
			}
			fmt.Fprintln(out, "err "+strings.ReplaceAll(msg, "\n", " "))
			out.Flush()
			continue
		}
		// the interface clause: every generated record type implements bebop.Record (the generated assertions
		// `var _ bebop.Record = &T{}` are part of the file, so type-checking already covers it)
		_ = pkg
		fmt.Fprintln(out, "ok")
		out.Flush()
	}
}
