// fexec: runs /repo's tokenizer (through the verif hook), ReadFile, Format and Validate on the op lines the extracted
// front-end model (ocaml/front_driver.ml) also runs.  Built with -tags verif.
package main

import (
	"bufio"
	"bytes"
	"encoding/hex"
	"errors"
	"fmt"
	"io"
	"os"
	"sort"
	"strconv"
	"strings"
	"time"

	"github.com/200sc/bebop"
)

// delivers data[:k] and then fails with an I/O error (k < 0: the whole data, then io.EOF)
type failAtR struct {
	data []byte
	k    int
	pos  int
}

func (f *failAtR) Read(p []byte) (int, error) {
	if f.k >= 0 && f.pos >= f.k {
		return 0, errors.New("verif-injected read failure")
	}
	lim := len(f.data)
	if f.k >= 0 && f.k < lim {
		lim = f.k
	}
	if f.pos >= lim {
		return 0, io.EOF
	}
	n := copy(p, f.data[f.pos:lim])
	f.pos += n
	return n, nil
}

func hx(s string) string { return fmt.Sprintf("%x", s) }

func dumpType(ft bebop.FieldType) string {
	if ft.Array != nil {
		return "A(" + dumpType(*ft.Array) + ")"
	}
	if ft.Map != nil {
		return "M(" + hx(ft.Map.Key) + "," + dumpType(ft.Map.Value) + ")"
	}
	return "S:" + hx(ft.Simple)
}
func dumpTags(ts []bebop.Tag) string {
	out := []string{}
	for _, t := range ts {
		out = append(out, fmt.Sprintf("%s:%s:%v", hx(t.Key), hx(t.Value), t.Boolean))
	}
	return "[" + strings.Join(out, ",") + "]"
}

type sink struct{ parts []string }

func (s *sink) pr(format string, a ...interface{}) { s.parts = append(s.parts, fmt.Sprintf(format, a...)) }

func dumpField(sb *sink, pre string, fd bebop.Field) {
	sb.pr("%sfield %s c=%s dm=%s d=%v %s %s", pre, hx(fd.Name), hx(fd.Comment), hx(fd.DeprecatedMessage), fd.Deprecated, dumpType(fd.FieldType), dumpTags(fd.Tags))
}
func dumpStruct(sb *sink, pre string, st bebop.Struct) {
	sb.pr("%sstruct %s c=%s op=%d ro=%v", pre, hx(st.Name), hx(st.Comment), st.OpCode, st.ReadOnly)
	for _, fd := range st.Fields {
		dumpField(sb, pre+" ", fd)
	}
}
func dumpMessage(sb *sink, pre string, m bebop.Message) {
	sb.pr("%smessage %s c=%s op=%d", pre, hx(m.Name), hx(m.Comment), m.OpCode)
	keys := []int{}
	for k := range m.Fields {
		keys = append(keys, int(k))
	}
	sort.Ints(keys)
	for _, k := range keys {
		sb.pr("%s idx %d", pre, k)
		dumpField(sb, pre+" ", m.Fields[uint8(k)])
	}
}
func dumpFile(sb *sink, f bebop.File) {
	imps := []string{}
	for _, i := range f.Imports {
		imps = append(imps, hx(i))
	}
	sb.pr("imports %s", strings.Join(imps, ","))
	sb.pr("gopackage %s", hx(f.GoPackage))
	for _, st := range f.Structs {
		dumpStruct(sb, "", st)
	}
	for _, m := range f.Messages {
		dumpMessage(sb, "", m)
	}
	for _, e := range f.Enums {
		sb.pr("enum %s c=%s t=%s u=%v", hx(e.Name), hx(e.Comment), hx(e.SimpleType), e.Unsigned)
		for _, o := range e.Options {
			sb.pr(" opt %s c=%s dm=%s d=%v v=%d uv=%d", hx(o.Name), hx(o.Comment), hx(o.DeprecatedMessage), o.Deprecated, o.Value, o.UintValue)
		}
	}
	for _, u := range f.Unions {
		sb.pr("union %s c=%s op=%d", hx(u.Name), hx(u.Comment), u.OpCode)
		keys := []int{}
		for k := range u.Fields {
			keys = append(keys, int(k))
		}
		sort.Ints(keys)
		for _, k := range keys {
			uf := u.Fields[uint8(k)]
			sb.pr(" idx %d dm=%s d=%v %s", k, hx(uf.DeprecatedMessage), uf.Deprecated, dumpTags(uf.Tags))
			if uf.Message != nil {
				dumpMessage(sb, "  ", *uf.Message)
			}
			if uf.Struct != nil {
				dumpStruct(sb, "  ", *uf.Struct)
			}
		}
	}
	for _, c := range f.Consts {
		sb.pr("const %s c=%s t=%s v=%s", hx(c.Name), hx(c.Comment), hx(c.SimpleType), hx(c.Value))
	}
}

func unhex(h string) []byte {
	if h == "-" {
		return nil
	}
	b, err := hex.DecodeString(h)
	if err != nil {
		panic(err)
	}
	return b
}

// run f with a deadline: a hang is reported as HANG (the goroutine is abandoned; the process exits at the end)
func withDeadline(d time.Duration, f func() string) string {
	ch := make(chan string, 1)
	go func() {
		defer func() {
			if r := recover(); r != nil {
				ch <- "PANIC"
			}
		}()
		ch <- f()
	}()
	select {
	case s := <-ch:
		return s
	case <-time.After(d):
		return "HANG"
	}
}

func main() {
	in := bufio.NewReaderSize(os.Stdin, 1<<22)
	out := bufio.NewWriterSize(os.Stdout, 1<<16)
	defer out.Flush()
	hangs := 0
	for {
		line, err := in.ReadString('\n')
		if line == "" && err != nil {
			break
		}
		t := strings.Fields(line)
		if len(t) == 0 {
			continue
		}
		var res string
		switch t[0] {
		case "TOK":
			k, _ := strconv.Atoi(t[1])
			data := unhex(t[2])
			d := bebop.VerifNextDump(&failAtR{data: data, k: k}, len(data)+3)
			res = strings.Join(strings.Split(strings.TrimRight(d, "\n"), "\n"), " ; ")
		case "READ":
			k, _ := strconv.Atoi(t[1])
			data := unhex(t[2])
			// the deadline grows with the input: 5 s plus 1 s per MiB (a 64 MiB file of blank lines takes ~8 s here)
			res = withDeadline(5*time.Second+time.Duration(len(data)>>20)*time.Second, func() string {
				f, _, err := bebop.ReadFile(&failAtR{data: data, k: k})
				if err != nil {
					return "ERR"
				}
				sb := &sink{}
				sb.pr("OK")
				dumpFile(sb, f)
				return strings.Join(sb.parts, " ; ")
			})
		case "FMT":
			data := unhex(t[1])
			res = withDeadline(3*time.Second, func() string {
				var b bytes.Buffer
				if err := bebop.Format(bytes.NewReader(data), &b); err != nil {
					return "ERR"
				}
				return fmt.Sprintf("OK %x", b.Bytes())
			})
		case "VAL":
			data := unhex(t[1])
			res = withDeadline(5*time.Second, func() string {
				f, _, err := bebop.ReadFile(bytes.NewReader(data))
				if err != nil {
					return "unparsable"
				}
				if err := f.Validate(); err != nil {
					return "reject"
				}
				return "accept"
			})
		default:
			res = "?"
		}
		if res == "HANG" {
			hangs++
			if hangs > 20 {
				fmt.Fprintln(out, res)
				out.Flush()
				os.Exit(3)
			}
		}
		fmt.Fprintln(out, strings.TrimSpace(res)+" ;")
		out.Flush()
	}
}
