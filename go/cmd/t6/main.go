// Translator T6: the tokenizer's lexical tables -> coq/gen/TokTable.v.
// usage: t6 <token.go> <tokenize.go> <out.v>
// Reads: the iota block of tokenKind constants (token.go); the `keywords` map literal, and the body of newTokenTree -
// tt.skip(c), tt.add([]byte{...}, simpleToken(kind) | stringLiteralToken | lineCommentToken | blockCommentToken | numberToken),
// the `for c := byte('0'); c <= '9'; c++ { tt.add(...) }` loop (tokenize.go).  Anything of another shape is a
// translation failure (exit 2).
package main

import (
	"fmt"
	"go/ast"
	"go/parser"
	"go/token"
	"os"
	"strconv"
	"strings"
)

func fail(format string, a ...interface{}) {
	fmt.Fprintf(os.Stderr, "T6: "+format+"\n", a...)
	os.Exit(2)
}

var kinds = map[string]int{}
var kindOrder []string

func charLit(e ast.Expr) (int, bool) {
	if bl, ok := e.(*ast.BasicLit); ok && bl.Kind == token.CHAR {
		s, err := strconv.Unquote(bl.Value)
		if err != nil || len(s) != 1 {
			fail("bad char literal %s", bl.Value)
		}
		return int(s[0]), true
	}
	return 0, false
}

// a []byte{...} literal whose elements are char literals or the loop variable (-1)
func byteSlice(e ast.Expr, loopVar string) []int {
	cl, ok := e.(*ast.CompositeLit)
	if !ok {
		fail("tt.add: first argument is not a []byte literal")
	}
	out := []int{}
	for _, el := range cl.Elts {
		if c, ok := charLit(el); ok {
			out = append(out, c)
		} else if id, ok := el.(*ast.Ident); ok && loopVar != "" && id.Name == loopVar {
			out = append(out, -1)
		} else {
			fail("tt.add: unsupported byte expression")
		}
	}
	return out
}

var builders = map[string]int{"numberToken": 1000, "stringLiteralToken": 1001, "lineCommentToken": 1002, "blockCommentToken": 1003}

func builderCode(e ast.Expr) int {
	switch x := e.(type) {
	case *ast.Ident:
		c, ok := builders[x.Name]
		if !ok {
			fail("tt.add: unknown builder %s", x.Name)
		}
		return c
	case *ast.CallExpr:
		if f, ok := x.Fun.(*ast.Ident); ok && f.Name == "simpleToken" && len(x.Args) == 1 {
			if id, ok := x.Args[0].(*ast.Ident); ok {
				k, ok := kinds[id.Name]
				if !ok {
					fail("simpleToken(%s): unknown kind", id.Name)
				}
				return k
			}
		}
	}
	fail("tt.add: unsupported builder expression")
	return 0
}

func nlist(l []int) string {
	s := []string{}
	for _, x := range l {
		s = append(s, strconv.Itoa(x))
	}
	return "[" + strings.Join(s, "; ") + "]%N"
}

type entry struct {
	path []int
	code int
}

func main() {
	if len(os.Args) != 4 {
		fail("usage: t6 token.go tokenize.go out.v")
	}
	fset := token.NewFileSet()
	tf, err := parser.ParseFile(fset, os.Args[1], nil, 0)
	if err != nil {
		fail("%v", err)
	}
	zf, err := parser.ParseFile(fset, os.Args[2], nil, 0)
	if err != nil {
		fail("%v", err)
	}
	// the iota block
	for _, d := range tf.Decls {
		g, ok := d.(*ast.GenDecl)
		if !ok || g.Tok != token.CONST {
			continue
		}
		isKinds := false
		for i, sp := range g.Specs {
			vs := sp.(*ast.ValueSpec)
			if i == 0 {
				if id, ok := vs.Type.(*ast.Ident); ok && id.Name == "tokenKind" && len(vs.Values) == 1 {
					if v, ok := vs.Values[0].(*ast.Ident); ok && v.Name == "iota" {
						isKinds = true
					}
				}
			}
			if !isKinds {
				break
			}
			if i > 0 && (vs.Type != nil || len(vs.Values) != 0) {
				fail("tokenKind block: %s is not a plain iota continuation", vs.Names[0].Name)
			}
			if len(vs.Names) != 1 {
				fail("tokenKind block: several names in one spec")
			}
			kinds[vs.Names[0].Name] = i
			kindOrder = append(kindOrder, vs.Names[0].Name)
		}
	}
	if len(kinds) == 0 {
		fail("no `tokenKindX tokenKind = iota` block found")
	}
	var keywords []entry
	var kwNames []string
	var skips []int
	var entries []entry
	sawDigits := false
	foundKw, foundTree := false, false
	for _, d := range zf.Decls {
		switch g := d.(type) {
		case *ast.GenDecl:
			if g.Tok != token.VAR {
				continue
			}
			for _, sp := range g.Specs {
				vs := sp.(*ast.ValueSpec)
				if len(vs.Names) != 1 || vs.Names[0].Name != "keywords" || len(vs.Values) != 1 {
					continue
				}
				cl, ok := vs.Values[0].(*ast.CompositeLit)
				if !ok {
					fail("keywords is not a map literal")
				}
				foundKw = true
				for _, el := range cl.Elts {
					kv := el.(*ast.KeyValueExpr)
					kl, ok := kv.Key.(*ast.BasicLit)
					if !ok || kl.Kind != token.STRING {
						fail("keywords: key is not a string literal")
					}
					w, _ := strconv.Unquote(kl.Value)
					id, ok := kv.Value.(*ast.Ident)
					if !ok {
						fail("keywords: value is not a kind constant")
					}
					k, ok := kinds[id.Name]
					if !ok {
						fail("keywords: unknown kind %s", id.Name)
					}
					p := []int{}
					for _, c := range []byte(w) {
						p = append(p, int(c))
					}
					keywords = append(keywords, entry{p, k})
					kwNames = append(kwNames, w)
				}
			}
		case *ast.FuncDecl:
			if g.Name.Name != "newTokenTree" {
				continue
			}
			foundTree = true
			var doStmt func(st ast.Stmt, loopVar string)
			doStmt = func(st ast.Stmt, loopVar string) {
				switch s := st.(type) {
				case *ast.AssignStmt, *ast.ReturnStmt:
					return
				case *ast.ExprStmt:
					call, ok := s.X.(*ast.CallExpr)
					if !ok {
						fail("newTokenTree: unsupported statement")
					}
					sel, ok := call.Fun.(*ast.SelectorExpr)
					if !ok {
						fail("newTokenTree: unsupported call")
					}
					switch sel.Sel.Name {
					case "skip":
						c, ok := charLit(call.Args[0])
						if !ok {
							fail("tt.skip: argument is not a char literal")
						}
						skips = append(skips, c)
					case "add":
						p := byteSlice(call.Args[0], loopVar)
						code := builderCode(call.Args[1])
						hasVar := false
						for _, x := range p {
							if x == -1 {
								hasVar = true
							}
						}
						if !hasVar {
							entries = append(entries, entry{p, code})
						} else {
							for c := int('0'); c <= int('9'); c++ {
								q := []int{}
								for _, x := range p {
									if x == -1 {
										q = append(q, c)
									} else {
										q = append(q, x)
									}
								}
								entries = append(entries, entry{q, code})
							}
						}
					default:
						fail("newTokenTree: unsupported method %s", sel.Sel.Name)
					}
				case *ast.ForStmt:
					// for c := byte('0'); c <= '9'; c++ { ... }
					as, ok := s.Init.(*ast.AssignStmt)
					if !ok || len(as.Lhs) != 1 {
						fail("newTokenTree: unsupported loop")
					}
					lv := as.Lhs[0].(*ast.Ident).Name
					conv, ok := as.Rhs[0].(*ast.CallExpr)
					if !ok || len(conv.Args) != 1 {
						fail("newTokenTree: unsupported loop start")
					}
					lo, ok1 := charLit(conv.Args[0])
					cond, ok2 := s.Cond.(*ast.BinaryExpr)
					if !ok1 || !ok2 || cond.Op != token.LEQ {
						fail("newTokenTree: unsupported loop bounds")
					}
					hi, ok3 := charLit(cond.Y)
					if !ok3 || lo != '0' || hi != '9' {
						fail("newTokenTree: the loop is not over '0'..'9'")
					}
					if _, ok := s.Post.(*ast.IncDecStmt); !ok {
						fail("newTokenTree: unsupported loop step")
					}
					sawDigits = true
					for _, b := range s.Body.List {
						doStmt(b, lv)
					}
				default:
					fail("newTokenTree: unsupported statement kind")
				}
			}
			for _, st := range g.Body.List {
				doStmt(st, "")
			}
		}
	}
	if !foundKw || !foundTree {
		fail("keywords map or newTokenTree not found")
	}
	_ = sawDigits
	var sb strings.Builder
	sb.WriteString("(* GENERATED by translator T6 from token.go and tokenize.go - do not edit. *)\nFrom Coq Require Import List NArith.\nImport ListNotations.\n\n")
	sb.WriteString("(* tokenKind constants, iota order *)\n")
	for _, n := range kindOrder {
		fmt.Fprintf(&sb, "Definition go_%s : N := %d.\n", n, kinds[n])
	}
	fmt.Fprintf(&sb, "Definition go_kind_count : N := %d.\n\n", len(kindOrder))
	sb.WriteString("(* keywords: spelling, kind *)\nDefinition go_keywords : list (list N * N) :=\n  [")
	for i, e := range keywords {
		if i > 0 {
			sb.WriteString(";\n   ")
		}
		fmt.Fprintf(&sb, "(%s, %d%%N) (* %s *)", nlist(e.path), e.code, kwNames[i])
	}
	sb.WriteString("].\n\n")
	fmt.Fprintf(&sb, "(* bytes skipped at the root of the token tree *)\nDefinition go_skips : list N := %s.\n\n", nlist(skips))
	sb.WriteString("(* the token tree: byte path, then what is built there - a kind (simpleToken) or 1000 numberToken, 1001 stringLiteralToken, 1002 lineCommentToken, 1003 blockCommentToken *)\n")
	sb.WriteString("Definition go_tree : list (list N * N) :=\n  [")
	for i, e := range entries {
		if i > 0 {
			sb.WriteString(";\n   ")
		}
		fmt.Fprintf(&sb, "(%s, %d%%N)", nlist(e.path), e.code)
	}
	sb.WriteString("].\n")
	if err := os.WriteFile(os.Args[3], []byte(sb.String()), 0o644); err != nil {
		fail("%v", err)
	}
}
