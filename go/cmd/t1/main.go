// Translator T1: iohelp/iohelp.go -> coq/gen/IohelpGen.v.
// Every function body is printed from the AST (comments and layout never matter), whitespace-normalised and matched
// against a fixed set of patterns; each pattern emits one descriptor of wire/IoLib.v. A function outside the pattern
// set is a translation failure (exit 2, the function named on stderr): the tie to the source is then broken.
package main

import (
	"bytes"
	"fmt"
	"go/ast"
	"go/parser"
	"go/printer"
	"go/token"
	"os"
	"regexp"
	"sort"
	"strings"
)

var fset = token.NewFileSet()

func src(n ast.Node) string {
	var b bytes.Buffer
	printer.Fprint(&b, fset, n)
	return strings.Join(strings.Fields(b.String()), " ")
}

type rule struct {
	name string
	kind string // slice | stream | misc
	re   *regexp.Regexp
	emit func(m []string) string
}

var widths = map[string]int{"uint16": 2, "int16": 2, "uint32": 4, "int32": 4, "uint64": 8, "int64": 8}

func signed(t string) string {
	if strings.HasPrefix(t, "int") {
		return "true"
	}
	return "false"
}

func orEight(s string) string {
	if s == "" {
		return "8"
	}
	return s
}

const errEOF = `\{ return "", io\.ErrUnexpectedEOF \}`

var rules = []rule{
	{"slice load", "slice", regexp.MustCompile(`^\{ _ = buf\[(\d+)\] return \*\(\*(u?int\d+)\)\(unsafe\.Pointer\(&buf\[0\]\)\) \}$`),
		func(m []string) string { return fmt.Sprintf("sl_load %s %d %s", m[1], widths[m[2]], signed(m[2])) }},
	{"slice store", "slice", regexp.MustCompile(`^\{ _ = b\[(\d+)\] \*\(\*(u?int\d+)\)\(unsafe\.Pointer\(&b\[0\]\)\) = i \}$`),
		func(m []string) string { return fmt.Sprintf("sl_store %s %d", m[1], widths[m[2]]) }},
	{"stream fixed read", "stream", regexp.MustCompile(`^\{ _, _ = io\.ReadFull\(r, r\.buffer(?:\[:(\d+)\])?\) return (Read\w+Bytes)\(r\.buffer\) \}$`),
		func(m []string) string { return fmt.Sprintf("st_read %s %s", orEight(m[1]), m[2]) }},
	{"stream fixed write", "stream", regexp.MustCompile(`^\{ (Write\w+Bytes)\(w\.buffer, i\) _, _ = w\.Write\(w\.buffer(?:\[:(\d+)\])?\) \}$`),
		func(m []string) string { return fmt.Sprintf("st_write %s %s", orEight(m[2]), m[1]) }},
	{"index read", "slice", regexp.MustCompile(`^\{ return buf\[0\] \}$`),
		func(m []string) string { return "sl_index0" }},
	{"bool read", "slice", regexp.MustCompile(`^\{ return buf\[0\] == 1 \}$`),
		func(m []string) string { return "sl_bool0" }},
	{"index write", "slice", regexp.MustCompile(`^\{ b\[0\] = by \}$`),
		func(m []string) string { return "sl_put0" }},
	{"bool write", "slice", regexp.MustCompile(`^\{ if bl \{ b\[0\] = 1 \} else \{ b\[0\] = 0 \} \}$`),
		func(m []string) string { return "sl_putbool0" }},
	{"stream byte read, zero on error", "stream", regexp.MustCompile(`^\{ _, err := io\.ReadFull\(r, r\.buffer\[:1\]\) if err != nil \{ r\.Err = err return 0 \} return r\.buffer\[0\] \}$`),
		func(m []string) string { return "st_read_byte ZeroOnError" }},
	{"stream byte read, stale on error", "stream", regexp.MustCompile(`^\{ _, err := io\.ReadFull\(r, r\.buffer\[:1\]\) if err != nil \{ r\.Err = err \} return r\.buffer\[0\] \}$`),
		func(m []string) string { return "st_read_byte StaleOnError" }},
	{"stream bool read", "stream", regexp.MustCompile(`^\{ _, _ = io\.ReadFull\(r, r\.buffer\[:1\]\) return r\.buffer\[0\] == 1 \}$`),
		func(m []string) string { return "st_read_bool" }},
	{"stream single-byte write", "stream", regexp.MustCompile(`^\{ _, _ = w\.Write\(\[\]byte\{b\}\) \}$`),
		func(m []string) string { return "st_write_byte" }},
	{"stream bool write", "stream", regexp.MustCompile(`^\{ if b \{ _, _ = w\.Write\(\[\]byte\{1\}\) \} else \{ _, _ = w\.Write\(\[\]byte\{0\}\) \} \}$`),
		func(m []string) string { return "st_write_bool" }},
	{"float via bits (slice read)", "slice", regexp.MustCompile(`^\{ return math\.Float(?:32|64)frombits\((Read\w+)\(buf\)\) \}$`),
		func(m []string) string { return fmt.Sprintf("sl_float %s", m[1]) }},
	{"float via bits (stream read)", "stream", regexp.MustCompile(`^\{ return math\.Float(?:32|64)frombits\((Read\w+)\(r\)\) \}$`),
		func(m []string) string { return fmt.Sprintf("st_float %s", m[1]) }},
	{"float via bits (slice write)", "slice", regexp.MustCompile(`^\{ (Write\w+)\(b, math\.Float(?:32|64)bits\(f\)\) \}$`),
		func(m []string) string { return fmt.Sprintf("sl_float %s", m[1]) }},
	{"float via bits (stream write)", "stream", regexp.MustCompile(`^\{ (Write\w+)\(w, math\.Float(?:32|64)bits\(f\)\) \}$`),
		func(m []string) string { return fmt.Sprintf("st_float %s", m[1]) }},
	{"guid read (array literal)", "slice", regexp.MustCompile(`^\{ return \[16\]byte\{ ((?:buf\[\d+\], )+)\} \}$`),
		func(m []string) string { return fmt.Sprintf("sl_perm_read [%s]", idxList(m[1])) }},
	{"guid write (assignments)", "slice", regexp.MustCompile(`^\{ _ = b\[(\d+)\] ((?:b\[\d+\] = guid\[\d+\] ?)+)\}$`),
		func(m []string) string { return fmt.Sprintf("sl_perm_write %s [%s]", m[1], assignList(m[2])) }},
	{"guid stream write", "stream", regexp.MustCompile(`^\{ flipped := \[16\]byte\{ ((?:guid\[\d+\], )+)\} _, _ = w\.Write\(flipped\[:\]\) \}$`),
		func(m []string) string { return fmt.Sprintf("st_write_perm [%s]", idxList(m[1])) }},
	{"guid stream read", "stream", regexp.MustCompile(`^\{ data := make\(\[\]byte, (\d+)\) _, _ = r\.Read\(data\) return (ReadGUIDBytes)\(data\) \}$`),
		func(m []string) string { return fmt.Sprintf("st_read_fresh %s %s", m[1], m[2]) }},
	{"string stream read", "stream", regexp.MustCompile(`^\{ data := make\(\[\]byte, (ReadUint32)\(r\)\) _, _ = r\.Read\(data\) return string\(data\) \}$`),
		func(m []string) string { return fmt.Sprintf("st_read_string %s", m[1]) }},
	{"string checked slice read", "slice", regexp.MustCompile(`^\{ if len\(buf\) < (\d+) ` + errEOF + ` sz := (ReadUint32Bytes)\(buf\) if len\(buf\) < int\(sz\)\+(\d+) ` + errEOF + ` (?:return string\(buf\[(\d+) ?: ?(\d+)\+sz\]\), nil|cut := buf\[(\d+) ?: ?(\d+)\+sz\] return \*\(\*string\)\(unsafe\.Pointer\(&cut\)\), nil) \}$`),
		func(m []string) string {
			lo, hi := m[4], m[5]
			if lo == "" {
				lo, hi = m[6], m[7]
			}
			return fmt.Sprintf("sl_string_checked %s %s %s %s %s", m[1], m[3], lo, hi, m[2])
		}},
	{"string unchecked slice read", "slice", regexp.MustCompile(`^\{ sz := (ReadUint32Bytes)\(buf\) (?:return string\(buf\[(\d+) ?: ?(\d+)\+sz\]\)|cut := buf\[(\d+) ?: ?(\d+)\+sz\] return \*\(\*string\)\(unsafe\.Pointer\(&cut\)\)) \}$`),
		func(m []string) string {
			lo, hi := m[2], m[3]
			if lo == "" {
				lo, hi = m[4], m[5]
			}
			return fmt.Sprintf("sl_string_unchecked %s %s %s", lo, hi, m[1])
		}},
	{"date slice read", "slice", regexp.MustCompile(`^\{ tm := (ReadInt64Bytes)\(buf\) tm \*= (\d+) t := time\.Time\{\} if tm == 0 \{ return t \} return time\.Unix\(0, tm\)\.UTC\(\) \}$`),
		func(m []string) string { return fmt.Sprintf("sl_date %s %s", m[2], m[1]) }},
	{"date stream read", "stream", regexp.MustCompile(`^\{ _, _ = io\.ReadFull\(r, r\.buffer(?:\[:(\d+)\])?\) return (ReadDateBytes)\(r\.buffer\) \}$`),
		func(m []string) string { return fmt.Sprintf("st_read %s %s", orEight(m[1]), m[2]) }},
	{"ErrorReader.Read (latching)", "misc", regexp.MustCompile(`^\{ n, err = io\.ReadFull\(er\.Reader, b\) if err != nil \{ er\.Err = err \} return n, err \}$`),
		func(m []string) string { return "er_read_full_latching" }},
	{"ErrorReader.Read (sticky, zeroing)", "misc", regexp.MustCompile(`^\{ if er\.Err != nil \{ clear\(b\) return 0, er\.Err \} n, err = io\.ReadFull\(er\.Reader, b\) if err != nil \{ er\.Err = err clear\(b\) \} return n, err \}$`),
		func(m []string) string { return "er_read_full_sticky_zeroing" }},
	{"ErrorReader.Drain", "misc", regexp.MustCompile(`^\{ _, _ = io\.ReadAll\(er\.Reader\) \}$`),
		func(m []string) string { return "er_drain_ignoring_errors" }},
	{"ErrorWriter.Write", "misc", regexp.MustCompile(`^\{ n, err = ew\.Writer\.Write\(b\) if err != nil \{ ew\.Err = err \} return n, err \}$`),
		func(m []string) string { return "ew_write_latching" }},
	{"ErrorWriter.SafeWrite", "misc", regexp.MustCompile(`^\{ if ew\.Err != nil \{ return 0 \} n, _ := ew\.Write\(b\) return n \}$`),
		func(m []string) string { return "ew_write_if_clear" }},
	{"NewErrorReader", "misc", regexp.MustCompile(`^\{ if er, ok := r\.\(\*ErrorReader\); ok \{ return er \} return &ErrorReader\{ Reader: r, buffer: make\(\[\]byte, (\d+)\), \} \}$`),
		func(m []string) string { return fmt.Sprintf("new_er_reusing %s", m[1]) }},
	{"NewErrorWriter", "misc", regexp.MustCompile(`^\{ if ew, ok := w\.\(\*ErrorWriter\); ok \{ return ew \} return &ErrorWriter\{ Writer: w, buffer: make\(\[\]byte, (\d+)\), \} \}$`),
		func(m []string) string { return fmt.Sprintf("new_ew_reusing %s", m[1]) }},
}

var num = regexp.MustCompile(`\[(\d+)\]`)

func idxList(s string) string {
	out := []string{}
	for _, m := range num.FindAllStringSubmatch(s, -1) {
		out = append(out, m[1])
	}
	return strings.Join(out, "; ")
}

// "b[0] = guid[3] b[1] = guid[2] ..." -> source index per destination, in destination order
func assignList(s string) string {
	ms := regexp.MustCompile(`b\[(\d+)\] = guid\[(\d+)\]`).FindAllStringSubmatch(s, -1)
	dst := map[int]string{}
	keys := []int{}
	for _, m := range ms {
		var d int
		fmt.Sscanf(m[1], "%d", &d)
		if _, dup := dst[d]; dup {
			return "999"
		}
		dst[d] = m[2]
		keys = append(keys, d)
	}
	sort.Ints(keys)
	out := []string{}
	for i, k := range keys {
		if k != i {
			return "999"
		}
		out = append(out, dst[k])
	}
	return strings.Join(out, "; ")
}

type item struct{ name, kind, rhs, rule string }

func main() {
	if len(os.Args) != 4 {
		fmt.Fprintln(os.Stderr, "usage: t1 iohelp.go out.v names.txt")
		os.Exit(2)
	}
	f, err := parser.ParseFile(fset, os.Args[1], nil, 0)
	if err != nil {
		fmt.Fprintln(os.Stderr, "T1:", err)
		os.Exit(2)
	}
	var items []item
	failed := []string{}
	for _, d := range f.Decls {
		fd, ok := d.(*ast.FuncDecl)
		if !ok || fd.Body == nil {
			continue
		}
		name := fd.Name.Name
		if fd.Recv != nil && len(fd.Recv.List) == 1 {
			t := src(fd.Recv.List[0].Type)
			name = strings.TrimPrefix(t, "*") + "_" + name
		}
		body := src(fd.Body)
		ok = false
		for _, r := range rules {
			if m := r.re.FindStringSubmatch(body); m != nil {
				items = append(items, item{name, r.kind, r.emit(m), r.name})
				ok = true
				break
			}
		}
		if !ok {
			failed = append(failed, name)
			fmt.Fprintf(os.Stderr, "T1: UNTRANSLATED %s: %s\n", name, body)
		}
	}
	if len(failed) > 0 {
		// untranslatable functions are left out of the generated file: a theorem that needs one of them then fails to
		// compile and names it; properties that do not depend on it are unaffected
		fmt.Fprintf(os.Stderr, "T1: %d function(s) of iohelp.go are outside the pattern set: %s\n", len(failed), strings.Join(failed, ", "))
	}
	// a function defined from an untranslated one is untranslated as well
	for changed := true; changed; {
		changed = false
		bad := map[string]bool{}
		for _, f := range failed {
			bad[strings.Replace(f, ".", "_", 1)] = true
			bad[f] = true
		}
		kept := items[:0]
		for _, it := range items {
			drop := false
			for _, dep := range regexp.MustCompile(`(?:Read|Write)\w+`).FindAllString(it.rhs, -1) {
				if bad[dep] {
					drop = true
				}
			}
			if drop {
				failed = append(failed, it.name)
				fmt.Fprintf(os.Stderr, "T1: %s dropped: it is defined from an untranslated function\n", it.name)
				changed = true
			} else {
				kept = append(kept, it)
			}
		}
		items = kept
	}
	// dependency order
	known := map[string]int{}
	for i, it := range items {
		known[it.name] = i
	}
	ident := regexp.MustCompile(`(?:Read|Write)\w+`)
	emitted := map[string]bool{}
	var order []item
	for len(order) < len(items) {
		progress := false
		for _, it := range items {
			if emitted[it.name] {
				continue
			}
			ready := true
			for _, dep := range ident.FindAllString(it.rhs, -1) {
				if _, k := known[dep]; k && dep != it.name && !emitted[dep] {
					ready = false
				}
			}
			if ready {
				order = append(order, it)
				emitted[it.name] = true
				progress = true
			}
		}
		if !progress {
			fmt.Fprintln(os.Stderr, "T1: cyclic dependency between iohelp functions")
			os.Exit(2)
		}
	}
	var b strings.Builder
	b.WriteString("(* GENERATED by translator T1 (go/cmd/t1) from iohelp/iohelp.go on every run -- do not edit *)\n")
	b.WriteString("Require Import Bebop.wire.IoLib.\n\n")
	if len(failed) > 0 {
		fmt.Fprintf(&b, "(* NOT TRANSLATED (outside the pattern set): %s *)\n\n", strings.Join(failed, ", "))
	}
	typ := map[string]string{"slice": "slice_fn", "stream": "stream_fn", "misc": "misc"}
	for _, it := range order {
		fmt.Fprintf(&b, "Definition %s : %s := %s.  (* %s *)\n", it.name, typ[it.kind], it.rhs, it.rule)
	}
	var names strings.Builder
	for _, kind := range []string{"slice", "stream", "misc"} {
		fmt.Fprintf(&b, "\nDefinition all_%s_fns : list %s := [", kind, typ[kind])
		i := 0
		for _, it := range order {
			if it.kind != kind {
				continue
			}
			if i > 0 {
				b.WriteString("; ")
			}
			b.WriteString(it.name)
			fmt.Fprintf(&names, "%s %d %s\n", kind, i, it.name)
			i++
		}
		b.WriteString("].\n")
	}
	if err := os.WriteFile(os.Args[2], []byte(b.String()), 0o644); err != nil {
		fmt.Fprintln(os.Stderr, "T1:", err)
		os.Exit(2)
	}
	if err := os.WriteFile(os.Args[3], []byte(names.String()), 0o644); err != nil {
		fmt.Fprintln(os.Stderr, "T1:", err)
		os.Exit(2)
	}
}
