// gexec: File.Generate on real files for the import (C18) and purity (C14) checks.
//   GEN <mode> <rootfile>                      one Generate; prints ok <type names> sha=<hash> | cycle | err <msg>
//   CONC <mode> <rootfile> <goroutines> <reps> many concurrent Generate / Validate calls on ONE shared File
//   MIX <rootfile> <goroutines> <reps>         Generate on ONE shared File under DIFFERENT option sets, in sequence and concurrently:
//                                               every output must equal the output a freshly parsed File gives under the same options
//   PURE <file> <reps>                         ReadFile / Validate / Format repeated on the same bytes
package main

import (
	"bufio"
	"bytes"
	"crypto/sha256"
	"fmt"
	"os"
	"reflect"
	"regexp"
	"sort"
	"strconv"
	"strings"
	"sync"

	"github.com/200sc/bebop"
)

var typeRe = regexp.MustCompile(`(?m)^type (\w+) `)

func settings(mode string) bebop.GenerateSettings {
	gs := bebop.GenerateSettings{PackageName: "gen", GenerateUnsafeMethods: true}
	if mode == "combined" {
		gs.ImportGenerationMode = bebop.ImportGenerationModeCombined
	}
	return gs
}

func read(path string) (bebop.File, error) {
	f, err := os.Open(path)
	if err != nil {
		return bebop.File{}, err
	}
	defer f.Close()
	bf, _, err := bebop.ReadFile(f)
	return bf, err
}

func genOnce(bf bebop.File, mode string) (out []byte, res string) {
	defer func() {
		if r := recover(); r != nil {
			res = fmt.Sprintf("panic %v", r)
		}
	}()
	var b bytes.Buffer
	if err := bf.Generate(&b, settings(mode)); err != nil {
		msg := strings.ReplaceAll(err.Error(), "\n", " ")
		if strings.Contains(msg, "import cycle") {
			return nil, "cycle"
		}
		if len(msg) > 160 {
			msg = msg[:160]
		}
		return nil, "err " + msg
	}
	names := []string{}
	for _, m := range typeRe.FindAllStringSubmatch(b.String(), -1) {
		names = append(names, m[1])
	}
	sort.Strings(names)
	return b.Bytes(), fmt.Sprintf("ok %s sha=%x", strings.Join(names, ","), sha256.Sum256(b.Bytes()))
}

func main() {
	in := bufio.NewReaderSize(os.Stdin, 1<<20)
	out := bufio.NewWriter(os.Stdout)
	defer out.Flush()
	for {
		line, err := in.ReadString('\n')
		if line == "" && err != nil {
			break
		}
		t := strings.Fields(line)
		if len(t) == 0 {
			continue
		}
		switch t[0] {
		case "GEN":
			bf, err := read(t[2])
			if err != nil {
				fmt.Fprintln(out, "err read "+err.Error())
				break
			}
			_, res := genOnce(bf, t[1])
			fmt.Fprintln(out, res)
		case "CONC":
			g, _ := strconv.Atoi(t[3])
			reps, _ := strconv.Atoi(t[4])
			bf, err := read(t[2])
			if err != nil {
				fmt.Fprintln(out, "err read "+err.Error())
				break
			}
			snapshot, _ := read(t[2])
			first, res0 := genOnce(bf, t[1])
			var mu sync.Mutex
			diffs := 0
			var wg sync.WaitGroup
			for i := 0; i < g; i++ {
				wg.Add(1)
				go func() {
					defer wg.Done()
					for r := 0; r < reps; r++ {
						o, res := genOnce(bf, t[1])
						_ = bf.Validate()
						if res != res0 || !bytes.Equal(o, first) {
							mu.Lock()
							diffs++
							mu.Unlock()
						}
					}
				}()
			}
			wg.Wait()
			changed := !reflect.DeepEqual(stripFileName(bf), stripFileName(snapshot))
			fmt.Fprintf(out, "conc first=%q differing=%d file-changed=%v\n", strings.SplitN(res0, " ", 2)[0], diffs, changed)
		case "MIX":
			g, _ := strconv.Atoi(t[2])
			reps, _ := strconv.Atoi(t[3])
			variants := []bebop.GenerateSettings{}
			for bits := 0; bits < 16; bits++ {
				gs := bebop.GenerateSettings{PackageName: "gen", GenerateUnsafeMethods: bits&1 != 0, PrivateDefinitions: bits&2 != 0,
					GenerateFieldTags: bits&4 != 0, AlwaysUsePointerReceivers: bits&8 != 0}
				variants = append(variants, gs)
				gs.ImportGenerationMode = bebop.ImportGenerationModeCombined
				variants = append(variants, gs)
			}
			gen := func(bf bebop.File, gs bebop.GenerateSettings) (res string) {
				defer func() {
					if r := recover(); r != nil {
						res = fmt.Sprintf("panic %v", r)
					}
				}()
				var b bytes.Buffer
				if err := bf.Generate(&b, gs); err != nil {
					return "err " + strings.ReplaceAll(err.Error(), "\n", " ")
				}
				return fmt.Sprintf("ok %x", sha256.Sum256(b.Bytes()))
			}
			refs := make([]string, len(variants))
			bad := ""
			for i, gs := range variants {
				fresh, err := read(t[1])
				if err != nil {
					bad = "err read " + err.Error()
					break
				}
				refs[i] = gen(fresh, gs)
			}
			if bad != "" {
				fmt.Fprintln(out, bad)
				break
			}
			shared, _ := read(t[1])
			snapshot, _ := read(t[1])
			seqDiffs := 0
			for r := 0; r < 3; r++ {
				for i := range variants {
					k := (i*7 + r*5) % len(variants)
					if gen(shared, variants[k]) != refs[k] {
						seqDiffs++
					}
				}
			}
			var mu sync.Mutex
			concDiffs := 0
			var wg sync.WaitGroup
			for w := 0; w < g; w++ {
				wg.Add(1)
				go func(w int) {
					defer wg.Done()
					for r := 0; r < reps; r++ {
						k := (w*3 + r) % len(variants)
						if gen(shared, variants[k]) != refs[k] {
							mu.Lock()
							concDiffs++
							mu.Unlock()
						}
					}
				}(w)
			}
			wg.Wait()
			changed := !reflect.DeepEqual(stripFileName(shared), stripFileName(snapshot))
			fmt.Fprintf(out, "mix sequential-differing=%d concurrent-differing=%d file-changed=%v\n", seqDiffs, concDiffs, changed)
		case "PURE":
			reps, _ := strconv.Atoi(t[2])
			data, err := os.ReadFile(t[1])
			if err != nil {
				fmt.Fprintln(out, "err read "+err.Error())
				break
			}
			var f0 bebop.File
			var e0, v0 string
			var fm0 []byte
			bad := []string{}
			for r := 0; r < reps; r++ {
				f, _, err := bebop.ReadFile(bytes.NewReader(data))
				es := fmt.Sprint(err)
				vs := ""
				if err == nil {
					vs = fmt.Sprint(f.Validate())
				}
				var fb bytes.Buffer
				ferr := bebop.Format(bytes.NewReader(data), &fb)
				if ferr != nil {
					fb.Reset()
				}
				if r == 0 {
					f0, e0, v0, fm0 = f, es, vs, fb.Bytes()
					continue
				}
				if es != e0 {
					bad = append(bad, "readfile-error-text")
				}
				if !reflect.DeepEqual(f, f0) {
					bad = append(bad, "readfile-file")
				}
				if vs != v0 {
					bad = append(bad, "validate-error-text:"+strings.ReplaceAll(v0, " ", "_")+"|"+strings.ReplaceAll(vs, " ", "_"))
				}
				if !bytes.Equal(fb.Bytes(), fm0) {
					bad = append(bad, "format-bytes")
				}
			}
			sort.Strings(bad)
			uniq := []string{}
			for i, b := range bad {
				if i == 0 || b != bad[i-1] {
					uniq = append(uniq, b)
				}
			}
			fmt.Fprintf(out, "pure differing=[%s]\n", strings.Join(uniq, " "))
		case "CPURE": // CPURE goroutines reps path,path,... : ReadFile / Validate / Format of several texts from many goroutines at once, each against the sequential result
			ng, _ := strconv.Atoi(t[1])
			reps, _ := strconv.Atoi(t[2])
			paths := strings.Split(t[3], ",")
			type ref struct {
				data []byte
				f    bebop.File
				es   string
				vs   string
				fm   []byte
			}
			refs := make([]ref, len(paths))
			okRead := true
			for i, p := range paths {
				data, err := os.ReadFile(p)
				if err != nil {
					okRead = false
					break
				}
				f, _, rerr := bebop.ReadFile(bytes.NewReader(data))
				vs := ""
				if rerr == nil {
					vs = fmt.Sprint(f.Validate())
				}
				var fb bytes.Buffer
				if ferr := bebop.Format(bytes.NewReader(data), &fb); ferr != nil {
					fb.Reset()
				}
				refs[i] = ref{data, f, fmt.Sprint(rerr), vs, append([]byte{}, fb.Bytes()...)}
			}
			if !okRead {
				fmt.Fprintln(out, "err read")
				break
			}
			var mu sync.Mutex
			diffs := map[string]int{}
			var wg sync.WaitGroup
			for w := 0; w < ng; w++ {
				wg.Add(1)
				go func(w int) {
					defer wg.Done()
					for r := 0; r < reps; r++ {
						for j := range refs {
							x := &refs[(j+w)%len(refs)]
							f, _, rerr := bebop.ReadFile(bytes.NewReader(x.data))
							vs := ""
							if rerr == nil {
								vs = fmt.Sprint(f.Validate())
							}
							var fb bytes.Buffer
							if ferr := bebop.Format(bytes.NewReader(x.data), &fb); ferr != nil {
								fb.Reset()
							}
							out2 := append([]byte{}, fb.Bytes()...)
							bad := ""
							if fmt.Sprint(rerr) != x.es || !reflect.DeepEqual(f, x.f) {
								bad = "readfile"
							} else if vs != x.vs {
								bad = "validate"
							} else if !bytes.Equal(out2, x.fm) {
								bad = "format-bytes"
							}
							if bad != "" {
								mu.Lock()
								diffs[bad]++
								mu.Unlock()
							}
						}
					}
				}(w)
			}
			wg.Wait()
			keys := []string{}
			for k := range diffs {
				keys = append(keys, fmt.Sprintf("%s:%d", k, diffs[k]))
			}
			sort.Strings(keys)
			fmt.Fprintf(out, "cpure differing=[%s]\n", strings.Join(keys, " "))
		default:
			fmt.Fprintln(out, "?")
		}
		out.Flush()
	}
}

func stripFileName(f bebop.File) bebop.File { f.FileName = ""; return f }
