// bgen: run /repo's current generator on a schema file.  usage: bgen <in.bop> <out.go> <package> <optbits> [combined]
// optbits: 1 unsafe methods, 2 shared-memory strings, 4 field tags, 8 private definitions, 16 pointer receivers.
// Exit status: 0 ok, 3 ReadFile error, 4 Generate error (message on stderr), 5 panic.
package main

import (
	"bytes"
	"fmt"
	"os"
	"strconv"

	"github.com/200sc/bebop"
)

func main() {
	defer func() {
		if r := recover(); r != nil {
			fmt.Fprintln(os.Stderr, "panic:", r)
			os.Exit(5)
		}
	}()
	in, out, pkg := os.Args[1], os.Args[2], os.Args[3]
	bits, _ := strconv.Atoi(os.Args[4])
	f, err := os.Open(in)
	if err != nil {
		fmt.Fprintln(os.Stderr, err)
		os.Exit(2)
	}
	bf, _, err := bebop.ReadFile(f)
	f.Close()
	if err != nil {
		fmt.Fprintln(os.Stderr, "readfile:", err)
		os.Exit(3)
	}
	bf.FileName = in
	mode := bebop.ImportGenerationModeSeparate
	if len(os.Args) > 5 && os.Args[5] == "combined" {
		mode = bebop.ImportGenerationModeCombined
	}
	gs := bebop.GenerateSettings{
		PackageName:               pkg,
		GenerateUnsafeMethods:     bits&1 != 0,
		SharedMemoryStrings:       bits&2 != 0,
		GenerateFieldTags:         bits&4 != 0,
		PrivateDefinitions:        bits&8 != 0,
		AlwaysUsePointerReceivers: bits&16 != 0,
		ImportGenerationMode:      mode,
	}
	var b bytes.Buffer
	if err := bf.Generate(&b, gs); err != nil {
		fmt.Fprintln(os.Stderr, "generate:", err)
		os.Exit(4)
	}
	if err := os.WriteFile(out, b.Bytes(), 0o644); err != nil {
		fmt.Fprintln(os.Stderr, err)
		os.Exit(2)
	}
}
