// ioexec: runs iohelp functions of /repo's working tree on the op lines the extracted Coq model (ocaml/io_driver.ml) also runs.
// Protocol (tab separated), one result line per op:
//
//	SR idx hex            slice read of function #idx (order of coq/gen/iohelp_names.txt, names given on argv)
//	SW idx hex rv         slice write into a copy of the buffer
//	TR hex idx,idx,..     stream reads on one ErrorReader over a reader that delivers the bytes and then fails
//	TW failidx idx=rv,..  stream writes on one ErrorWriter whose underlying writer fails at call #failidx
package main

import (
	"bufio"
	"encoding/hex"
	"errors"
	"fmt"
	"io"
	"math"
	"math/big"
	"os"
	"strconv"
	"strings"
	"time"

	"github.com/200sc/bebop/iohelp"
)

func unhex(s string) []byte {
	if s == "-" {
		return []byte{}
	}
	b, err := hex.DecodeString(s)
	if err != nil {
		panic(err)
	}
	return b
}
func tohex(b []byte) string {
	if len(b) == 0 {
		return "-"
	}
	return hex.EncodeToString(b)
}
func zs(i int64) string {
	if i < 0 {
		return "z:-" + strconv.FormatUint(uint64(-i), 16)
	}
	return "z:" + strconv.FormatUint(uint64(i), 16)
}
func us(u uint64) string { return "z:" + strconv.FormatUint(u, 16) }
func bs(b bool) string {
	if b {
		return "b:1"
	}
	return "b:0"
}
func ds(t time.Time) string {
	if t.IsZero() {
		return "d:zero"
	}
	// seconds and nanoseconds combined without wrapping: UnixNano() is taken modulo 2^64 and would hide a date that is off by a multiple of 2^64 ns
	n := new(big.Int).Mul(big.NewInt(t.Unix()), big.NewInt(1000000000))
	n.Add(n, big.NewInt(int64(t.Nanosecond())))
	if n.Sign() < 0 {
		return "d:-" + new(big.Int).Neg(n).Text(16)
	}
	return "d:" + n.Text(16)
}
func parseZ(s string) (int64, uint64) {
	s = strings.TrimPrefix(s, "z:")
	if strings.HasPrefix(s, "-") {
		u, err := strconv.ParseUint(s[1:], 16, 64)
		if err != nil {
			panic(err)
		}
		return -int64(u), uint64(-int64(u))
	}
	u, err := strconv.ParseUint(s, 16, 64)
	if err != nil {
		panic(err)
	}
	return int64(u), u
}
func guidOf(s string) (g [16]byte) {
	copy(g[:], unhex(strings.TrimPrefix(s, "x:")))
	return
}

var sliceRead = map[string]func([]byte) string{
	"ReadGUIDBytes":       func(b []byte) string { g := iohelp.ReadGUIDBytes(b); return "ok x:" + tohex(g[:]) },
	"ReadBoolBytes":       func(b []byte) string { return "ok " + bs(iohelp.ReadBoolBytes(b)) },
	"ReadByteBytes":       func(b []byte) string { return "ok " + us(uint64(iohelp.ReadByteBytes(b))) },
	"ReadUint8Bytes":      func(b []byte) string { return "ok " + us(uint64(iohelp.ReadUint8Bytes(b))) },
	"ReadUint16Bytes":     func(b []byte) string { return "ok " + us(uint64(iohelp.ReadUint16Bytes(b))) },
	"ReadInt16Bytes":      func(b []byte) string { return "ok " + zs(int64(iohelp.ReadInt16Bytes(b))) },
	"ReadUint32Bytes":     func(b []byte) string { return "ok " + us(uint64(iohelp.ReadUint32Bytes(b))) },
	"ReadInt32Bytes":      func(b []byte) string { return "ok " + zs(int64(iohelp.ReadInt32Bytes(b))) },
	"ReadUint64Bytes":     func(b []byte) string { return "ok " + us(iohelp.ReadUint64Bytes(b)) },
	"ReadInt64Bytes":      func(b []byte) string { return "ok " + zs(iohelp.ReadInt64Bytes(b)) },
	"ReadFloat32Bytes":    func(b []byte) string { return "ok " + us(uint64(math.Float32bits(iohelp.ReadFloat32Bytes(b)))) },
	"ReadFloat64Bytes":    func(b []byte) string { return "ok " + us(math.Float64bits(iohelp.ReadFloat64Bytes(b))) },
	"ReadDateBytes":       func(b []byte) string { return "ok " + ds(iohelp.ReadDateBytes(b)) },
	"MustReadStringBytes": func(b []byte) string { return "ok x:" + tohex([]byte(iohelp.MustReadStringBytes(b))) },
	"MustReadStringBytesSharedMemory": func(b []byte) string {
		return "ok x:" + tohex([]byte(iohelp.MustReadStringBytesSharedMemory(b)))
	},
	"ReadStringBytes": func(b []byte) string {
		s, err := iohelp.ReadStringBytes(b)
		if err != nil {
			return "err"
		}
		return "ok x:" + tohex([]byte(s))
	},
	"ReadStringBytesSharedMemory": func(b []byte) string {
		s, err := iohelp.ReadStringBytesSharedMemory(b)
		if err != nil {
			return "err"
		}
		return "ok x:" + tohex([]byte(s))
	},
}

var sliceWrite = map[string]func([]byte, string){
	"WriteGUIDBytes":   func(b []byte, v string) { iohelp.WriteGUIDBytes(b, guidOf(v)) },
	"WriteInt64Bytes":  func(b []byte, v string) { i, _ := parseZ(v); iohelp.WriteInt64Bytes(b, i) },
	"WriteUint64Bytes": func(b []byte, v string) { _, u := parseZ(v); iohelp.WriteUint64Bytes(b, u) },
	"WriteInt32Bytes":  func(b []byte, v string) { i, _ := parseZ(v); iohelp.WriteInt32Bytes(b, int32(i)) },
	"WriteUint32Bytes": func(b []byte, v string) { _, u := parseZ(v); iohelp.WriteUint32Bytes(b, uint32(u)) },
	"WriteInt16Bytes":  func(b []byte, v string) { i, _ := parseZ(v); iohelp.WriteInt16Bytes(b, int16(i)) },
	"WriteUint16Bytes": func(b []byte, v string) { _, u := parseZ(v); iohelp.WriteUint16Bytes(b, uint16(u)) },
	"WriteByteBytes":   func(b []byte, v string) { _, u := parseZ(v); iohelp.WriteByteBytes(b, byte(u)) },
	"WriteUint8Bytes":  func(b []byte, v string) { _, u := parseZ(v); iohelp.WriteUint8Bytes(b, uint8(u)) },
	"WriteBoolBytes":   func(b []byte, v string) { iohelp.WriteBoolBytes(b, v == "b:1") },
	"WriteFloat32Bytes": func(b []byte, v string) {
		_, u := parseZ(v)
		iohelp.WriteFloat32Bytes(b, math.Float32frombits(uint32(u)))
	},
	"WriteFloat64Bytes": func(b []byte, v string) { _, u := parseZ(v); iohelp.WriteFloat64Bytes(b, math.Float64frombits(u)) },
}

var streamRead = map[string]func(*iohelp.ErrorReader) string{
	"ReadBool":    func(r *iohelp.ErrorReader) string { return "ok " + bs(iohelp.ReadBool(r)) },
	"ReadByte":    func(r *iohelp.ErrorReader) string { return "ok " + us(uint64(iohelp.ReadByte(r))) },
	"ReadUint8":   func(r *iohelp.ErrorReader) string { return "ok " + us(uint64(iohelp.ReadUint8(r))) },
	"ReadGUID":    func(r *iohelp.ErrorReader) string { g := iohelp.ReadGUID(r); return "ok x:" + tohex(g[:]) },
	"ReadUint16":  func(r *iohelp.ErrorReader) string { return "ok " + us(uint64(iohelp.ReadUint16(r))) },
	"ReadInt16":   func(r *iohelp.ErrorReader) string { return "ok " + zs(int64(iohelp.ReadInt16(r))) },
	"ReadUint32":  func(r *iohelp.ErrorReader) string { return "ok " + us(uint64(iohelp.ReadUint32(r))) },
	"ReadInt32":   func(r *iohelp.ErrorReader) string { return "ok " + zs(int64(iohelp.ReadInt32(r))) },
	"ReadUint64":  func(r *iohelp.ErrorReader) string { return "ok " + us(iohelp.ReadUint64(r)) },
	"ReadInt64":   func(r *iohelp.ErrorReader) string { return "ok " + zs(iohelp.ReadInt64(r)) },
	"ReadFloat32": func(r *iohelp.ErrorReader) string { return "ok " + us(uint64(math.Float32bits(iohelp.ReadFloat32(r)))) },
	"ReadFloat64": func(r *iohelp.ErrorReader) string { return "ok " + us(math.Float64bits(iohelp.ReadFloat64(r))) },
	"ReadString":  func(r *iohelp.ErrorReader) string { return "ok x:" + tohex([]byte(iohelp.ReadString(r))) },
	"ReadDate":    func(r *iohelp.ErrorReader) string { return "ok " + ds(iohelp.ReadDate(r)) },
}

var streamWrite = map[string]func(*iohelp.ErrorWriter, string){
	"WriteGUID":   func(w *iohelp.ErrorWriter, v string) { iohelp.WriteGUID(w, guidOf(v)) },
	"WriteByte":   func(w *iohelp.ErrorWriter, v string) { _, u := parseZ(v); iohelp.WriteByte(w, byte(u)) },
	"WriteUint8":  func(w *iohelp.ErrorWriter, v string) { _, u := parseZ(v); iohelp.WriteUint8(w, uint8(u)) },
	"WriteBool":   func(w *iohelp.ErrorWriter, v string) { iohelp.WriteBool(w, v == "b:1") },
	"WriteInt64":  func(w *iohelp.ErrorWriter, v string) { i, _ := parseZ(v); iohelp.WriteInt64(w, i) },
	"WriteUint64": func(w *iohelp.ErrorWriter, v string) { _, u := parseZ(v); iohelp.WriteUint64(w, u) },
	"WriteInt32":  func(w *iohelp.ErrorWriter, v string) { i, _ := parseZ(v); iohelp.WriteInt32(w, int32(i)) },
	"WriteUint32": func(w *iohelp.ErrorWriter, v string) { _, u := parseZ(v); iohelp.WriteUint32(w, uint32(u)) },
	"WriteInt16":  func(w *iohelp.ErrorWriter, v string) { i, _ := parseZ(v); iohelp.WriteInt16(w, int16(i)) },
	"WriteUint16": func(w *iohelp.ErrorWriter, v string) { _, u := parseZ(v); iohelp.WriteUint16(w, uint16(u)) },
	"WriteFloat32": func(w *iohelp.ErrorWriter, v string) {
		_, u := parseZ(v)
		iohelp.WriteFloat32(w, math.Float32frombits(uint32(u)))
	},
	"WriteFloat64": func(w *iohelp.ErrorWriter, v string) {
		_, u := parseZ(v)
		iohelp.WriteFloat64(w, math.Float64frombits(u))
	},
}

// a reader that hands out its data in chunks of at most `chunk` bytes and then fails with io.EOF (or a custom error)
type failingReader struct {
	data  []byte
	pos   int
	chunk int
	err   error
}

func (f *failingReader) Read(p []byte) (int, error) {
	if f.pos >= len(f.data) {
		return 0, f.err
	}
	n := len(p)
	if n > f.chunk {
		n = f.chunk
	}
	if n > len(f.data)-f.pos {
		n = len(f.data) - f.pos
	}
	copy(p, f.data[f.pos:f.pos+n])
	f.pos += n
	return n, nil
}

type failingWriter struct {
	calls  [][]byte
	failAt int
}

func (f *failingWriter) Write(p []byte) (int, error) {
	k := len(f.calls)
	f.calls = append(f.calls, append([]byte{}, p...))
	if k == f.failAt {
		return 0, errors.New("injected write failure")
	}
	return len(p), nil
}

func try(f func() string) (out string) {
	defer func() {
		if r := recover(); r != nil {
			out = "panic"
		}
	}()
	return f()
}

func main() {
	// argv: names file (kind idx name per line)
	names := map[string][]string{}
	data, err := os.ReadFile(os.Args[1])
	if err != nil {
		panic(err)
	}
	for _, ln := range strings.Split(strings.TrimSpace(string(data)), "\n") {
		f := strings.Fields(ln)
		names[f[0]] = append(names[f[0]], f[2])
	}
	in := bufio.NewReaderSize(os.Stdin, 1<<20)
	out := bufio.NewWriterSize(os.Stdout, 1<<16)
	defer out.Flush()
	chunk := 3
	for {
		line, err := in.ReadString('\n')
		if line == "" && err != nil {
			break
		}
		t := strings.Split(strings.TrimRight(line, "\n"), "\t")
		switch t[0] {
		case "SR":
			i, _ := strconv.Atoi(t[1])
			name := names["slice"][i]
			f, ok := sliceRead[name]
			if !ok {
				fmt.Fprintln(out, "nofn "+name)
				break
			}
			buf := unhex(t[2])
			fmt.Fprintln(out, try(func() string { return f(buf) }))
		case "SW":
			i, _ := strconv.Atoi(t[1])
			name := names["slice"][i]
			f, ok := sliceWrite[name]
			if !ok {
				fmt.Fprintln(out, "nofn "+name)
				break
			}
			buf := unhex(t[2])
			fmt.Fprintln(out, try(func() string { f(buf, t[3]); return "ok " + tohex(buf) }))
		case "TR":
			fr := &failingReader{data: unhex(t[1]), chunk: chunk, err: io.EOF}
			chunk = chunk%5 + 1
			r := iohelp.NewErrorReader(fr)
			outs := []string{}
			for _, is := range strings.Split(t[2], ",") {
				i, _ := strconv.Atoi(is)
				name := names["stream"][i]
				f, ok := streamRead[name]
				if !ok {
					outs = append(outs, "nofn "+name)
					continue
				}
				outs = append(outs, try(func() string { return f(r) }))
			}
			fmt.Fprintf(out, "%s | consumed=%d err=%v\n", strings.Join(outs, " ; "), fr.pos, r.Err != nil)
		case "TW":
			fi, _ := strconv.Atoi(t[1])
			fw := &failingWriter{failAt: fi}
			w := iohelp.NewErrorWriter(fw)
			res := try(func() string {
				for _, item := range strings.Split(t[2], ",") {
					kv := strings.SplitN(item, "=", 2)
					i, _ := strconv.Atoi(kv[0])
					name := names["stream"][i]
					f, ok := streamWrite[name]
					if !ok {
						return "nofn " + name
					}
					f(w, kv[1])
				}
				return ""
			})
			if res != "" {
				fmt.Fprintln(out, res)
				break
			}
			cs := []string{}
			for _, c := range fw.calls {
				cs = append(cs, tohex(c))
			}
			fmt.Fprintf(out, "%s | err=%v\n", strings.Join(cs, ","), w.Err != nil)
		default:
			fmt.Fprintln(out, "?")
		}
		out.Flush()
	}
}
