import front


def check(tier, seed, replay=None):
    front.check_fmt("C17", tier, seed, replay)
