# Building and running the two sides of the wire correspondence: the extracted Coq model (ocaml/wire_driver.ml) and the
# code /repo's CURRENT generator emits for a schema, with the reflection executor dropped into the generated package.
import hashlib, json, os, shutil
from vcommon import *
import wiregen

OPT_NAMES = {1: "unsafe", 2: "shm-strings", 4: "tags", 8: "private", 16: "ptr-receivers"}


def repo_hash():
    h = hashlib.sha256()
    for root, dirs, files in os.walk(REPO):
        dirs[:] = sorted(d for d in dirs if d not in (".git", "testdata"))
        for fn in sorted(files):
            if fn.endswith(".go") and not fn.endswith("_test.go") or fn in ("go.mod",):
                p = os.path.join(root, fn)
                h.update(p.encode())
                h.update(open(p, "rb").read())
    return h.hexdigest()[:16]


def harness_hash():
    h = hashlib.sha256()
    for p in ("go/exec/zz_exec.go.tmpl", "go/cmd/bgen/main.go", "lib/wiregen.py"):
        h.update(open(os.path.join(VERIF, p), "rb").read())
    return h.hexdigest()[:12]


def model_bin():
    return build_ocaml("wiremodel", "extract/ExtractWire.v", "wiremodel", "wire_driver.ml", "wire")


def bgen_bin():
    """the generator front: linked against /repo's working tree, so rebuilt whenever the tree changes"""
    out = os.path.join(BIN, "bgen-%s" % repo_hash())
    if not os.path.exists(out):
        with Lock("bgen"):
            if not os.path.exists(out):
                go_build(os.path.join(VERIF, "go", "cmd", "bgen"), out)
    return out


class GenFailure(Exception):
    def __init__(self, stage, detail):
        super().__init__(stage + ": " + detail[:400])
        self.stage, self.detail = stage, detail


def build_package(schema, optbits, label):
    """generate Go for the schema with /repo's generator under the option set, add the executor, build. Returns the binary."""
    bop = schema.to_bop()
    key = hashlib.sha256((repo_hash() + harness_hash() + bop + str(optbits)).encode()).hexdigest()[:16]
    out = os.path.join(BIN, "wire-%s-%s" % (label, key))
    if os.path.exists(out):
        return out
    with Lock("pkg-" + key):
        if os.path.exists(out):
            return out
        d = os.path.join(WORK, "pkg-%s-%d" % (key, os.getpid()))
        shutil.rmtree(d, ignore_errors=True)
        os.makedirs(os.path.join(d, "pkg"))
        try:
            open(os.path.join(d, "schema.bop"), "w").write(bop)
            rc, so, se = sh([bgen_bin(), os.path.join(d, "schema.bop"), os.path.join(d, "pkg", "gen.go"), "pkg", str(optbits)], timeout=300)
            if rc != 0:
                raise GenFailure({3: "readfile", 4: "generate", 5: "generator-panic"}.get(rc, "bgen rc=%d" % rc), se)
            private = bool(optbits & 8)
            open(os.path.join(d, "pkg", "zz_registry.go"), "w").write(schema.registry_go("pkg", private))
            tmpl = open(os.path.join(VERIF, "go", "exec", "zz_exec.go.tmpl")).read().replace("package PKG", "package pkg")
            open(os.path.join(d, "pkg", "zz_exec.go"), "w").write(tmpl)
            open(os.path.join(d, "main.go"), "w").write('package main\n\nimport "wt/pkg"\n\nfunc main() { pkg.ZZMain() }\n')
            open(os.path.join(d, "go.mod"), "w").write("module wt\n\ngo 1.21\n\nrequire github.com/200sc/bebop v0.0.0\n\nreplace github.com/200sc/bebop => %s\n" % REPO)
            if os.path.exists(os.path.join(REPO, "go.sum")):
                shutil.copy(os.path.join(REPO, "go.sum"), os.path.join(d, "go.sum"))
            rc, so, se = sh(["go", "build", "-o", out, "."], cwd=d, timeout=900)
            if rc != 0:
                raise GenFailure("go-build", se[-3000:])
        finally:
            shutil.rmtree(d, ignore_errors=True)
    return out


def write_model_schema(schema, label):
    p = os.path.join(WORK, "schema-%s-%d.txt" % (label, os.getpid()))
    open(p, "w").write(schema.to_model())
    return p


def run_model(schema_path, ops, timeout=1800):
    return run_lines([model_bin(), schema_path], ops, timeout=timeout)


def run_go(binary, ops, measure=False, timeout=1800, vmem_kb=8000000):
    env = "ZZ_MEASURE=1 " if measure else ""
    # a decoder that dies (fatal out-of-memory) is restarted after the op in flight; misaligned reads under the known C04 finding
    # do that often, so the budget is generous
    return run_lines("ulimit -v %d; %sexec %s" % (vmem_kb, env, binary), ops, timeout=timeout, max_crashes=5000, crash_budget_s=400 if measure else 180)


def parse_kv(line):
    """'a=1 b=xx | d=...' -> dict; the part after ' | ' is kept whole under its own key"""
    out = {}
    head, _, tail = line.partition(" | ")
    for tok in head.split(" "):
        if "=" in tok:
            k, _, v = tok.partition("=")
            out[k] = v
    if tail:
        k, _, v = tail.partition("=")
        out["|" + k] = v
    out["_raw"] = line
    return out


def opt_label(bits):
    return "+".join(n for b, n in OPT_NAMES.items() if bits & b) or "default"
