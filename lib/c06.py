# C06: truncated input is reported as an error, never a crash (every cut point, both decoders).
from vcommon import *
import wire, wiregen, wirerun

ALLOC_SLACK = 2 << 20     # bytes an op may allocate beyond PER_BYTE x its input before it is "out of proportion"
PER_BYTE = 16384


def encodings(data, cases, opt="1"):
    out = []
    for (d, tags, v), g in zip(cases, data["go"][opt]):
        G = wirerun.parse_kv(g)
        if "m" in G:
            out.append((d, tags, v, G["m"]))
    return out


def big_cases(s, shapes, rng):
    """(def, encoding hex, cut points): records whose last field is a 70 000-byte string / a 3 000-element array, alone and as a union branch"""
    out = []
    byname = {d.name: d for d in s.defs}
    def le4(n):
        return n.to_bytes(4, "little").hex()
    body = rng.bytes(70000).hex()
    for d, tags in shapes:
        ft = None
        if tags == ("struct", "plain") and d.fields[0][1] == ("p", "string"):
            # struct CS { string f0; int32 f1 }: string first, then sentinel
            enc = le4(70000) + body + "07000000"
            out.append((d, enc))
        if tags == ("union", "plain") and d.fields[0][1].fields and d.fields[0][1].fields[0][1] == ("p", "string"):
            inner = le4(70000) + body + "09"
            enc = le4(len(inner) // 2) + "01" + inner
            out.append((d, enc))
        if tags == ("struct", "arr") and d.fields[0][1] == ("a", ("p", "uint16")):
            enc = le4(3000) + rng.bytes(6000).hex() + "07000000"
            out.append((d, enc))
    if "SLeaf" in byname:
        out.append((byname["SLeaf"], "05000000" + le4(70000) + body))      # string is the LAST thing read
    if "ULeaf" in byname:
        inner = "05000000" + le4(70000) + body
        out.append((byname["ULeaf"], le4(len(inner) // 2) + "01" + inner))
    res = []
    for d, enc in out:
        L = len(enc) // 2
        cuts = sorted({0, 3, 4, 7, 8, 9, 12, 13, L - 1, L - 2, L - 5, L // 2, 65535, 65536, 65537, 65544, 65545} | {rng.below(L) for _ in range(12)})
        res.append((d, enc, [c for c in cuts if 0 <= c < L]))
    return res


def classify(line):
    w = line.split(" ", 1)[0]
    return {"ok": "ok", "err": "err", "panic": "panic", "excess": "excess", "CRASH": "crash", "fuel": "fuel"}.get(w, w)


def alloc_of(line):
    if "alloc=" in line:
        return int(line.rsplit("alloc=", 1)[1].split()[0])
    return 0


def check(tier, seed, replay=None):
    run = Run("C06", tier, seed)
    run.cov["rule"] = ("for sampled cover values (all record contexts), EVERY strict prefix of the encoding is given to UnmarshalBebop and to DecodeBebop "
                       "(read schedules alternate: all at once / one byte / random chunks; the reader fails with io.EOF or a custom error after the prefix); "
                       "required outcome: a non-nil error; panics, nil results, hangs and allocations beyond 16 KiB x input + 2 MiB are violations; the extracted model's "
                       "outcome class is compared on every prefix; distinct = distinct (type, prefix)")
    run.cov["trusted_base"] = wire.WIRE_TRUSTED
    broken = None
    try:
        wire.maybe_proof(run, "props/C06.v", ["C06_byte", "C06_stream"])
    except BrokenTie as e:
        broken = e
    found = False
    try:
        s, shapes, cases, data = wire.v_batch(tier, seed)
    except BrokenTie as e:
        run.violation({"what": "the wire harness no longer builds against /repo", "detail": str(e)}, no_input=True)
        run.finish()
    wire.gen_failure_violation(run, data["fails"], "the generator fails or emits code that does not build for the shape cover")
    if "1" not in data["go"]:
        run.finish()
    rng = SplitMix64(seed).fork("C06")
    encs = encodings(data, cases)
    step = 1 if tier == "thorough" else 3
    encs = [e for k, e in enumerate(encs) if k % step == 0 and wire.hexlen(e[3]) <= 400]
    ops_go, ops_mo, meta = [], [], []
    for d, tags, v, h in encs:
        L = wire.hexlen(h)
        for k in range(L):
            pre = h[:2 * k] or "-"
            ops_go.append("DEC %s 1 %s" % (d.name, pre))
            ops_mo.append("DEC %d 1 %s" % (d.id, pre))
            meta.append((d, v, k, L, "UnmarshalBebop"))
            sch = ["-", "1,1,1,1,1,1,1,1,1,1,1,1,1,1,1,1,1,1,1,1,1,1,1,1", ",".join(str(1 + rng.below(7)) for _ in range(12))][k % 3]
            kind = " custom" if k % 2 else ""
            ops_go.append("SDEC %s %s %s%s" % (d.name, sch, pre, kind))
            ops_mo.append("SDEC %d %s %s" % (d.id, sch, pre))
            meta.append((d, v, k, L, "DecodeBebop"))
    # long strings and long arrays: sampled cut points (a helper may treat large lengths differently)
    for d, v, cuts in big_cases(s, shapes, rng):
        for k in cuts:
            ops_go.append("DEC %s 1 %s" % (d.name, v[:2 * k] or "-"))
            ops_mo.append("DEC %d 1 %s" % (d.id, v[:2 * k] or "-"))
            meta.append((d, "<%d-byte encoding with a long string / array>" % (len(v) // 2), k, len(v) // 2, "UnmarshalBebop"))
            sch = ["-", "4096,4096,4096,4096,4096,4096,4096,4096,4096,4096,4096,4096,4096,4096,4096,4096,4096,4096,4096,4096", "1000,3,50000,7"][k % 3]
            kind = " custom" if k % 2 else ""
            ops_go.append("SDEC %s %s %s%s" % (d.name, sch, v[:2 * k] or "-", kind))
            ops_mo.append("SDEC %d %s %s" % (d.id, sch, v[:2 * k] or "-"))
            meta.append((d, "<%d-byte encoding with a long string / array>" % (len(v) // 2), k, len(v) // 2, "DecodeBebop"))
    b = wirerun.build_package(s, 1, "cover")
    sp = wirerun.write_model_schema(s, "c06")
    gl = wirerun.run_go(b, ops_go, measure=True)
    ml = wirerun.run_model(sp, ops_mo)
    os.remove(sp)
    n = 0
    tally = {}
    for (d, v, k, L, which), og, g, m in zip(meta, ops_go, gl, ml):
        n += 1
        run.nontrivial((d.name, og.split()[-1] if which == "UnmarshalBebop" else og.split()[-2:]))
        cg, cm = classify(g), classify(m)
        if cm == "ok" and "err=1" in m:
            cm = "err"          # the model returns the latch; DecodeBebop returns it as the error
        tally[cg] = tally.get(cg, 0) + 1
        bad = None
        if cg != "err":
            bad = "%s of the first %d of %d bytes: %s" % (which, k, L, g[:200])
        elif alloc_of(g) > PER_BYTE * max(k, 1) + ALLOC_SLACK:
            bad = "%s of the first %d of %d bytes allocated %d bytes" % (which, k, L, alloc_of(g))
        elif cm not in ("err", "excess"):
            bad = "%s of the first %d of %d bytes: implementation returns an error but the model predicts %s" % (which, k, L, m[:120])
        if bad:
            found = True
            if len(run.violations) < 4:
                run.violation({"what": bad, "type": d.name, "schema_def": s.def_bop(d) if not d.inline else d.name, "value": v, "cut": k, "op": og[:900], "model": m[:200]})
        if n % 9973 == 0:
            run.sample({"op": og[:160], "impl": g[:80], "model": m[:80]})
    run.notes["outcomes"] = tally
    run.notes["values_cut"] = len(encs)
    run.count("evaluations", n)
    if broken:
        wire.finish_broken(run, "C06", broken, found)
    run.finish()
