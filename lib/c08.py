# C08: I/O failures during encode or decode always surface as errors; an EncodeBebop that returns nil wrote MarshalBebop's bytes.
from vcommon import *
import wire, wiregen, wirerun
from c06 import encodings, classify, alloc_of, ALLOC_SLACK, PER_BYTE, big_cases


def check(tier, seed, replay=None):
    run = Run("C08", tier, seed)
    run.cov["rule"] = ("encode: for sampled cover values EVERY failing Write-call index k (0 .. number of calls of the fault-free run, plus one beyond) of the underlying writer; "
                       "observables: returned error nil / non-nil, bytes accepted by the writer, number of Write calls - compared with the extracted model (senc) and with the rule "
                       "`k < calls => error` and `nil => bytes = MarshalBebop`; decode: every failing byte offset of the reader (io.EOF and a custom error, three chunk schedules) "
                       "must give a non-nil error without panic or excess allocation; distinct = distinct (type, value, k)")
    run.cov["trusted_base"] = wire.WIRE_TRUSTED
    broken = None
    try:
        wire.maybe_proof(run, "props/C08.v", ["C08_enc", "C08_dec"])
    except BrokenTie as e:
        broken = e
    found = False
    try:
        s, shapes, cases, data = wire.v_batch(tier, seed)
    except BrokenTie as e:
        run.violation({"what": "the wire harness no longer builds against /repo", "detail": str(e)}, no_input=True)
        run.finish()
    wire.gen_failure_violation(run, data["fails"], "the generator fails or emits code that does not build for the shape cover")
    if "1" not in data["go"]:
        run.finish()
    rng = SplitMix64(seed).fork("C08")
    encs = encodings(data, cases)
    step = 2 if tier == "thorough" else 4
    encs = [e for k, e in enumerate(encs) if k % step == 2 % step and wire.hexlen(e[3]) <= 300]
    sp = wirerun.write_model_schema(s, "c08")
    b = wirerun.build_package(s, 1, "cover")
    # fault-free runs give the number of Write calls
    base = wirerun.run_model(sp, ["SENC %d -1 %s" % (d.id, v) for d, tags, v, h in encs])
    ops_go, ops_mo, meta = [], [], []
    for (d, tags, v, h), bl in zip(encs, base):
        calls = int(wirerun.parse_kv(bl).get("calls", "0"))
        for k in list(range(-1, min(calls, 60) + 1)):
            ops_go.append("SENC %s %d %s" % (d.name, k, v))
            ops_mo.append("SENC %d %d %s" % (d.id, k, v))
            meta.append((d, v, h, k, calls))
    gl = wirerun.run_go(b, ops_go)
    ml = wirerun.run_model(sp, ops_mo)
    n = 0
    for (d, v, h, k, calls), og, g, m in zip(meta, ops_go, gl, ml):
        n += 1
        run.nontrivial((d.name, v, k))
        G, Mo = wirerun.parse_kv(g), wirerun.parse_kv(m)
        bad = None
        if "err" not in G:
            bad = "EncodeBebop with the writer failing at call %d: %s" % (k, g[:200])
        elif 0 <= k < calls and G["err"] != "1":
            bad = "the writer failed at call %d of %d but EncodeBebop returned nil" % (k, calls)
        elif G["err"] == "0" and G["out"] != h and not wiregen.has_multimap(wiregen.canon(v)):
            bad = "EncodeBebop returned nil but wrote %s, MarshalBebop gives %s" % (G["out"][:120], h[:120])
        elif G["err"] == "0" and wire.hexlen(G["out"]) != wire.hexlen(h):
            bad = "EncodeBebop returned nil but wrote %d bytes, MarshalBebop gives %d" % (wire.hexlen(G["out"]), wire.hexlen(h))
        elif (G["err"], G["calls"]) != (Mo.get("err"), Mo.get("calls")) and not wiregen.has_multimap(wiregen.canon(v)):
            bad = "implementation (err=%s after %s Write calls) and model (err=%s after %s calls) disagree" % (G["err"], G["calls"], Mo.get("err"), Mo.get("calls"))
        if bad:
            found = True
            if len(run.violations) < 3:
                run.violation({"what": bad, "type": d.name, "schema_def": s.def_bop(d) if not d.inline else d.name, "value": v, "failing_write_call": k, "op": og[:600], "impl": g[:300], "model": m[:300]})
        if n % 4001 == 0:
            run.sample({"op": og[:160], "impl": g[:100], "model": m[:100]})
    run.notes["encode_fault_points"] = n
    # decode side: every failing byte offset, custom error and EOF
    ops_go, ops_mo, meta = [], [], []
    dstep = 1 if tier == "thorough" else 3
    for q, (d, tags, v, h) in enumerate(encs):
        if q % dstep:
            continue
        L = wire.hexlen(h)
        for k in range(L):
            pre = h[:2 * k] or "-"
            sch = ["-", "1,1,1,1,1,1,1,1,1,1,1,1,1,1,1,1", ",".join(str(1 + rng.below(5)) for _ in range(10))][(k + q) % 3]
            kind = "custom" if (k + q) % 2 else "eof"
            ops_go.append("SDEC %s %s %s %s" % (d.name, sch, pre, kind))
            ops_mo.append("SDEC %d %s %s" % (d.id, sch, pre))
            meta.append((d, v, k, L))
    for d, v, cuts in big_cases(s, shapes, rng):
        for k in cuts:
            sch = ["-", "4096,4096,4096,4096,4096,4096,4096,4096,4096,4096,4096,4096,4096,4096,4096,4096,4096,4096,4096,4096", "1000,3,50000,7"][k % 3]
            kind = "custom" if k % 2 else "eof"
            ops_go.append("SDEC %s %s %s %s" % (d.name, sch, v[:2 * k] or "-", kind))
            ops_mo.append("SDEC %d %s %s" % (d.id, sch, v[:2 * k] or "-"))
            meta.append((d, "<%d-byte encoding with a long string / array>" % (len(v) // 2), k, len(v) // 2))
            if k % 2 == 0:       # the same offset with the other error kind
                ops_go.append("SDEC %s %s %s custom" % (d.name, sch, v[:2 * k] or "-"))
                ops_mo.append("SDEC %d %s %s" % (d.id, sch, v[:2 * k] or "-"))
                meta.append((d, "<%d-byte encoding with a long string / array>" % (len(v) // 2), k, len(v) // 2))
    gl = wirerun.run_go(b, ops_go, measure=True)
    ml = wirerun.run_model(sp, ops_mo)
    os.remove(sp)
    m2 = 0
    for (d, v, k, L), og, g, m in zip(meta, ops_go, gl, ml):
        n += 1
        m2 += 1
        run.nontrivial((d.name, og.split()[2:]))
        cg, cm = classify(g), classify(m)
        if cm == "ok" and "err=1" in m:
            cm = "err"
        bad = None
        if cg != "err":
            bad = "the reader failed after %d of %d bytes but DecodeBebop: %s" % (k, L, g[:160])
        elif alloc_of(g) > PER_BYTE * max(k, 1) + ALLOC_SLACK:
            bad = "the reader failed after %d of %d bytes and DecodeBebop allocated %d bytes" % (k, L, alloc_of(g))
        elif cm not in ("err", "excess"):
            bad = "the reader failed after %d of %d bytes: implementation returns the error, the model predicts %s" % (k, L, m[:100])
        if bad:
            found = True
            if len(run.violations) < 4:
                run.violation({"what": bad, "type": d.name, "schema_def": s.def_bop(d) if not d.inline else d.name, "value": v, "failing_offset": k, "op": og[:900], "model": m[:200]})
    run.notes["decode_fault_points"] = m2
    run.count("evaluations", n)
    if broken:
        wire.finish_broken(run, "C08", broken, found)
    run.finish()
