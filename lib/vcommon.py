# Shared machinery of ./check: environment, translators, Coq build, OCaml/Go builds, evidence, replays, findings.
import fcntl, hashlib, json, os, re, shutil, subprocess, sys, time

VERIF = os.path.dirname(os.path.dirname(os.path.abspath(__file__)))
REPO = os.environ.get("VERIF_REPO", "/repo")
COQ = os.path.join(VERIF, "coq")
CACHE = os.path.join(VERIF, ".cache")
BIN = os.path.join(CACHE, "bin")
WORK = os.path.join(VERIF, ".work")
LOGS = os.path.join(CACHE, "logs")
for d in (CACHE, BIN, WORK, LOGS, os.path.join(VERIF, "evidence"), os.path.join(VERIF, "replays")):
    os.makedirs(d, exist_ok=True)

ENV = dict(os.environ)
ENV.update({"GOFLAGS": "-mod=mod", "GOPROXY": "off", "GOSUMDB": "off", "GOTOOLCHAIN": "local",
            "CARGO_NET_OFFLINE": "true", "PIP_NO_INDEX": "1", "LC_ALL": "C"})

TRUSTED_BASE_COMMON = [
    "Coq 8.16.1 kernel (coqc, full .vo build; vm_compute used for finite-table obligations and witnesses; no native_compute)",
    "axioms: none (Print Assumptions under every property theorem reports 'Closed under the global context')",
    "extraction: ExtrOcamlBasic only (Extract Inductive bool/option/unit/list/prod/sumbool/sumor; Extract Inlined Constant andb/orb and friends); N, Z, positive, nat stay Coq inductives; OCaml 4.13.1",
    "the correspondence harness (Python orchestrator, Go executors linked against /repo's working tree, OCaml drivers around the extracted model)",
    "Go toolchain 1.23.5",
]


class SplitMix64:
    def __init__(self, seed):
        self.s = seed & 0xFFFFFFFFFFFFFFFF

    def next(self):
        self.s = (self.s + 0x9E3779B97F4A7C15) & 0xFFFFFFFFFFFFFFFF
        z = self.s
        z = ((z ^ (z >> 30)) * 0xBF58476D1CE4E5B9) & 0xFFFFFFFFFFFFFFFF
        z = ((z ^ (z >> 27)) * 0x94D049BB133111EB) & 0xFFFFFFFFFFFFFFFF
        return z ^ (z >> 31)

    def below(self, n):
        return self.next() % n if n > 0 else 0

    def chance(self, num, den):
        return self.below(den) < num

    def choice(self, xs):
        return xs[self.below(len(xs))]

    def bytes(self, n):
        out = bytearray()
        while len(out) < n:
            out += self.next().to_bytes(8, "little")
        return bytes(out[:n])

    def fork(self, label):
        h = hashlib.sha256((str(self.s) + ":" + label).encode()).digest()
        return SplitMix64(int.from_bytes(h[:8], "little"))


def sh(cmd, cwd=None, timeout=600, env=None, stdin=None, check=False):
    """run a command, return (rc, stdout, stderr); rc = -9 on timeout"""
    try:
        p = subprocess.run(cmd, cwd=cwd, env=env or ENV, input=stdin, capture_output=True, timeout=timeout,
                           shell=isinstance(cmd, str), text=isinstance(stdin, str) or stdin is None)
    except subprocess.TimeoutExpired as e:
        return -9, (e.stdout or b"").decode("utf8", "replace") if isinstance(e.stdout, bytes) else (e.stdout or ""), "TIMEOUT"
    if check and p.returncode != 0:
        raise RuntimeError("command failed: %s\n%s\n%s" % (cmd, p.stdout[-4000:], p.stderr[-4000:]))
    return p.returncode, p.stdout, p.stderr


def run_lines(cmd, ops, timeout=1200, shell=False, max_crashes=20, crash_budget_s=600):
    """feed op lines to a line-per-op executor; when it dies, record a CRASH for the op in flight and restart after it
    (crash_budget_s: once restarts have gone on for this long, the remaining ops are reported as not run instead of being retried one crash at a time)"""
    out, crashes, start = [], 0, 0
    t0 = time.time()
    while start < len(ops):
        if crashes > 20 and time.time() - t0 > crash_budget_s:
            out += ["CRASH (not run)"] * (len(ops) - start)
            break
        inp = "\n".join(ops[start:]) + "\n"
        rc, so, se = sh(cmd, stdin=inp, timeout=timeout)
        got = so.split("\n")[:-1] if so else []
        got = got[: len(ops) - start]
        out += got
        start += len(got)
        if start < len(ops) and got and got[-1].startswith("HANG"):
            crashes += 1          # the executor gave up on an operation that did not return and exited: go on after it
            if crashes > max_crashes:
                out += ["CRASH (not run)"] * (len(ops) - start)
                break
            continue
        if start < len(ops):
            out.append("CRASH rc=%s %s" % (rc, se[:200].replace("\n", " | ")))
            start += 1
            crashes += 1
            if crashes > max_crashes:
                out += ["CRASH (not run)"] * (len(ops) - start)
                break
    return out



class Lock:
    def __init__(self, name):
        self.path = os.path.join(CACHE, name + ".lock")

    def __enter__(self):
        self.f = open(self.path, "w")
        fcntl.flock(self.f, fcntl.LOCK_EX)
        return self

    def __exit__(self, *a):
        fcntl.flock(self.f, fcntl.LOCK_UN)
        self.f.close()


class BrokenTie(Exception):
    """a translator, proof obligation, or harness build no longer checks against /repo's working tree"""

    def __init__(self, kind, name, detail):
        super().__init__("%s %s: %s" % (kind, name, detail[:300]))
        self.kind, self.name, self.detail = kind, name, detail


def write_if_changed(path, content):
    try:
        if open(path).read() == content:
            return False
    except OSError:
        pass
    tmp = path + ".tmp%d" % os.getpid()
    open(tmp, "w").write(content)
    os.replace(tmp, path)
    return True


# ---------------------------------------------------------------- translators
def go_build(pkgdir, out, tags=None, race=False):
    cmd = ["go", "build"]
    if tags:
        cmd += ["-tags", tags]
    if race:
        cmd += ["-race"]
    cmd += ["-o", out, "."]
    rc, so, se = sh(cmd, cwd=pkgdir, timeout=900)
    if rc != 0:
        raise BrokenTie("harness-build", os.path.relpath(pkgdir, VERIF), se[-3000:])
    return out


def ensure_tool(name):
    """translators do not link against /repo; build once per source hash"""
    src = os.path.join(VERIF, "go", "cmd", name)
    h = hashlib.sha256()
    for fn in sorted(os.listdir(src)):
        h.update(open(os.path.join(src, fn), "rb").read())
    out = os.path.join(BIN, "%s-%s" % (name, h.hexdigest()[:12]))
    if not os.path.exists(out):
        with Lock("tool-" + name):
            if not os.path.exists(out):
                go_build(src, out)
    return out


def translate_t1():
    """iohelp/iohelp.go -> coq/gen/IohelpGen.v (+ names table). Raises BrokenTie when a function leaves the pattern set."""
    tool = ensure_tool("t1")
    with Lock("translate"):
        tmpv = os.path.join(WORK, "IohelpGen.%d.v" % os.getpid())
        tmpn = os.path.join(WORK, "iohelp_names.%d.txt" % os.getpid())
        rc, so, se = sh([tool, os.path.join(REPO, "iohelp", "iohelp.go"), tmpv, tmpn])
        if rc != 0:
            raise BrokenTie("translator", "T1(iohelp/iohelp.go)", se[-3000:])
        open(os.path.join(LOGS, "t1.log"), "w").write(se)
        ch = write_if_changed(os.path.join(COQ, "gen", "IohelpGen.v"), open(tmpv).read())
        write_if_changed(os.path.join(COQ, "gen", "iohelp_names.txt"), open(tmpn).read())
        os.remove(tmpv)
        os.remove(tmpn)
        return ch


def run_translator(tool_name, args, out_rel, label):
    tool = ensure_tool(tool_name)
    with Lock("translate"):
        tmp = os.path.join(WORK, "%s.%d.v" % (tool_name, os.getpid()))
        rc, so, se = sh([tool] + args + [tmp])
        if rc != 0:
            raise BrokenTie("translator", label, se[-3000:])
        ch = write_if_changed(os.path.join(COQ, out_rel), open(tmp).read())
        os.remove(tmp)
        return ch


# ---------------------------------------------------------------- Coq
def coq_makefile():
    mk = os.path.join(COQ, "Makefile")
    cp = os.path.join(COQ, "_CoqProject")
    if not os.path.exists(mk) or os.path.getmtime(mk) < os.path.getmtime(cp):
        sh(["coq_makefile", "-f", "_CoqProject", "-o", "Makefile"], cwd=COQ, check=True)


def coq_make(targets, label):
    """full .vo build of the given targets (and what they depend on). Raises BrokenTie naming file and statement."""
    with Lock("coq"):
        coq_makefile()
        t0 = time.time()
        rc, so, se = sh(["timeout", "3000", "make", "-j16"] + targets, cwd=COQ, timeout=3100)
        log = so + "\n" + se
        open(os.path.join(LOGS, "coq-%s.log" % label), "w").write(log)
        if rc != 0:
            m = re.search(r'File "\./([^"]+)", line (\d+), characters', log)
            name = "?"
            detail = log[-2500:]
            if m:
                fn, ln = m.group(1), int(m.group(2))
                name = fn + ":" + str(ln)
                try:
                    lines = open(os.path.join(COQ, fn)).read().split("\n")
                    for i in range(min(ln, len(lines)) - 1, -1, -1):
                        mm = re.match(r"\s*(Theorem|Lemma|Example|Corollary|Definition|Fixpoint|Instance)\s+(\w+)", lines[i])
                        if mm:
                            name = "%s %s (%s:%d)" % (mm.group(1), mm.group(2), fn, ln)
                            break
                except OSError:
                    pass
            raise BrokenTie("proof", name, detail)
        return time.time() - t0, log


def coq_closure(vfile):
    """the .v files a property file depends on (transitively), from coqdep output kept by coq_makefile"""
    dep = {}
    try:
        txt = open(os.path.join(COQ, ".Makefile.d")).read().replace("\\\n", " ")
    except OSError:
        return [vfile]
    for line in txt.split("\n"):
        if ":" not in line:
            continue
        l, r = line.split(":", 1)
        outs = [x for x in l.split() if x.endswith(".vo")]
        ins = [x[:-1] for x in r.split() if x.endswith(".vo")]
        for o in outs:
            dep[o[:-1]] = ins
    seen, todo = [], [vfile]
    while todo:
        f = todo.pop()
        if f in seen:
            continue
        seen.append(f)
        todo += dep.get(f, [])
    return sorted(seen)


STMT = re.compile(r"^\s*(Theorem|Lemma|Example|Corollary|Fact|Remark)\s+(\w+)", re.M)


def coq_stats(vfiles):
    """(number of statements closed by Qed/Defined, list of names) over the given files; forbidden constructs raise"""
    n, names = 0, []
    bad = re.compile(r"\b(Admitted|admit|Axiom|Parameter|Conjecture|Abort All|Unset Guard Checking|bypass_check|Admit Obligations|Unset Positivity|Unset Universe Checking)\b")
    for vf in vfiles:
        src = open(os.path.join(COQ, vf)).read()
        nocom = re.sub(r"\(\*.*?\*\)", "", src, flags=re.S)
        b = bad.search(nocom)
        if b:
            raise BrokenTie("proof", vf, "forbidden construct %s" % b.group(1))
        ns = STMT.findall(nocom)
        q = len(re.findall(r"\b(Qed|Defined)\s*\.", nocom))
        names += [x[1] for x in ns]
        n += min(len(ns), q) if q else 0
    return n, names


def assumptions_closed(log_or_vo_label, props_file):
    """re-run Print Assumptions of a compiled property file quickly: coqc on a tiny file importing it"""
    mod = "Bebop." + props_file[:-2].replace("/", ".")
    return mod


def print_assumptions(props_v, theorems):
    """returns {theorem: 'closed' | text}"""
    mod = "Bebop." + props_v[:-2].replace("/", ".")
    tmpd = os.path.join(WORK, "pa%d" % os.getpid())
    os.makedirs(tmpd, exist_ok=True)
    src = "Require Import %s.\n" % mod + "".join("Print Assumptions %s.\n" % t for t in theorems)
    fn = os.path.join(tmpd, "pa.v")
    open(fn, "w").write(src)
    rc, so, se = sh(["coqc", "-Q", COQ, "Bebop", fn], cwd=tmpd, timeout=300)
    shutil.rmtree(tmpd, ignore_errors=True)
    if rc != 0:
        raise BrokenTie("proof", "Print Assumptions " + mod, (so + se)[-2000:])
    chunks = re.split(r"(?=Closed under the global context|Axioms:)", so)
    res = [c.strip() for c in chunks if c.strip()]
    out = {}
    for t, c in zip(theorems, res):
        out[t] = "closed" if c.startswith("Closed under") else c
    if len(res) != len(theorems):
        raise BrokenTie("proof", "Print Assumptions " + mod, "unexpected output: " + so[-1000:])
    return out


# ---------------------------------------------------------------- OCaml extraction + driver
def build_ocaml(name, extract_v, extracted_base, driver_ml, deps_label):
    """coqc the extraction file in a scratch dir, then ocamlfind the extracted module + conv + driver. Cached on content hash."""
    h = hashlib.sha256()
    src = open(os.path.join(COQ, extract_v)).read()
    roots = [m.rstrip(".").replace(".", "/") + ".v" for m in re.findall(r"Bebop\.([\w.]+)", src)]
    files = {extract_v}
    for r in roots:
        files.update(coq_closure(r))
    for vf in sorted(files):
        h.update(open(os.path.join(COQ, vf), "rb").read())
    for f in (driver_ml, "conv.ml"):
        h.update(open(os.path.join(VERIF, "ocaml", f), "rb").read())
    out = os.path.join(BIN, "%s-%s" % (name, h.hexdigest()[:12]))
    if os.path.exists(out):
        return out
    with Lock("ocaml-" + name):
        if os.path.exists(out):
            return out
        d = os.path.join(WORK, "ml-%s-%d" % (name, os.getpid()))
        shutil.rmtree(d, ignore_errors=True)
        os.makedirs(d)
        rc, so, se = sh(["coqc", "-Q", COQ, "Bebop", os.path.join(COQ, extract_v)], cwd=d, timeout=600)
        if rc != 0:
            raise BrokenTie("extraction", extract_v, (so + se)[-2000:])
        for junk in ("vo", "glob", "vok", "vos"):
            p = os.path.join(COQ, extract_v[:-1] + junk)
            if os.path.exists(p):
                os.remove(p)
        conv = open(os.path.join(VERIF, "ocaml", "conv.ml")).read()
        drv = open(os.path.join(VERIF, "ocaml", driver_ml)).read()
        drv = drv.replace("include Conv_inc", conv)
        open(os.path.join(d, "driver.ml"), "w").write(drv)
        rc, so, se = sh(["ocamlfind", "ocamlopt", "-O3", "-w", "-a", "-package", "str", "-linkpkg", extracted_base + ".mli", extracted_base + ".ml", "driver.ml", "-o", out],
                        cwd=d, timeout=600)
        if rc != 0:
            rc, so, se = sh(["ocamlfind", "ocamlopt", "-w", "-a", "-package", "str", "-linkpkg", extracted_base + ".mli", extracted_base + ".ml", "driver.ml", "-o", out],
                            cwd=d, timeout=600)
        if rc != 0:
            raise BrokenTie("harness-build", "ocaml/" + driver_ml, (so + se)[-3000:])
        shutil.rmtree(d, ignore_errors=True)
    return out


# ---------------------------------------------------------------- findings, replays, evidence
def load_findings():
    try:
        return json.load(open(os.path.join(VERIF, "known_findings.json")))
    except OSError:
        return {"findings": [], "fixed": []}


class Run:
    """one invocation of a check: collects counters, violations, known findings; writes evidence; exits"""

    def __init__(self, pid, tier, seed):
        self.pid, self.tier, self.seed = pid, tier, seed
        self.t0 = time.time()
        self.cov = {"evaluations": 0, "distinct_nontrivial": 0, "samples": []}
        self.assumptions = []
        self.violations = []
        self.known_hits = {}
        self.findings = [f for f in load_findings().get("findings", []) if f.get("property") == pid]
        self.distinct = set()
        self.notes = {}

    def count(self, key, n=1):
        self.cov[key] = self.cov.get(key, 0) + n

    def sample(self, s, limit=6):
        if len(self.cov["samples"]) < limit:
            self.cov["samples"].append(s)

    def nontrivial(self, key):
        self.distinct.add(hashlib.md5(repr(key).encode()).digest()[:8])

    def known(self, key, what):
        """returns True when the failing case is a listed known finding"""
        for f in self.findings:
            if f["key"] == key:
                self.known_hits.setdefault(key, [f.get("what", what), 0])
                self.known_hits[key][1] += 1
                return True
        return False

    def broken_tie(self, e):
        """the proof / translator / build no longer checks: the proof-level keys are withdrawn from the evidence"""
        for k in ("obligations", "discharged"):
            self.cov.pop(k, None)
        self.cov["broken_tie"] = {"kind": e.kind, "name": e.name, "detail": e.detail[-1200:]}

    def violation(self, replay, no_input=False):
        replay = dict(replay)
        replay["property"] = self.pid
        replay["seed"] = self.seed
        replay["kind"] = "no-failing-input-found" if no_input else "failing-input"
        replay.setdefault("replay_cmd", "./check %s --replay <this file>" % self.pid)
        self.violations.append((replay, no_input))

    def finish(self, level="proof"):
        self.cov["distinct_nontrivial"] = max(self.cov.get("distinct_nontrivial", 0), len(self.distinct))
        wall = time.time() - self.t0
        ev = {"property_id": self.pid, "tier": self.tier, "seed": self.seed, "level": level, "coverage": self.cov,
              "assumptions": self.assumptions, "wall_s": round(wall, 2), "violations": len(self.violations)}
        ev["coverage"]["known_findings_fired"] = {k: v[1] for k, v in self.known_hits.items()}
        ev["coverage"].update(self.notes)
        p = os.path.join(VERIF, "evidence", self.pid + ".json")
        tmp = p + ".tmp%d" % os.getpid()
        json.dump(ev, open(tmp, "w"), indent=1, sort_keys=True, default=str)
        os.replace(tmp, p)
        for k, v in sorted(self.known_hits.items()):
            print("KNOWN-FINDING: property=%s %s [%s] (%d case(s) this run)" % (self.pid, v[0], k, v[1]))
        if self.violations:
            # one line per distinct violation kind, first few only
            for i, (rp, no_input) in enumerate(self.violations[:5]):
                path = os.path.join(VERIF, "replays", "%s-%s-%d.json" % (self.pid, self.seed, i))
                json.dump(rp, open(path, "w"), indent=1, default=str)
                print("VIOLATION property=%s replay=%s%s" % (self.pid, path, " no-failing-input-found" if no_input else ""))
            sys.stdout.flush()
            sys.exit(1)
        print("OK property=%s tier=%s evaluations=%d distinct_nontrivial=%d wall=%.1fs" %
              (self.pid, self.tier, self.cov.get("evaluations", 0), self.cov["distinct_nontrivial"], wall))
        sys.exit(0)


def proof_step(run, props_v, theorems, extra_targets=()):
    """compile the property file (full closure), record obligations / discharged / axioms in the evidence"""
    targets = [props_v + "o"] + [t + "o" for t in extra_targets]
    wall, log = coq_make(targets, run.pid)
    closure = coq_closure(props_v)
    n, names = coq_stats(closure)
    pa = print_assumptions(props_v, theorems)
    notclosed = {t: a for t, a in pa.items() if a != "closed"}
    run.cov["obligations"] = n
    run.cov["discharged"] = n
    run.cov["checker_cmd"] = "cd /verif/coq && make -j16 %s   (coqc 8.16.1, full .vo build) ; Print Assumptions %s" % (" ".join(targets), ", ".join(theorems))
    run.cov["theorems"] = theorems
    run.cov["closure_files"] = closure
    run.cov["axioms"] = notclosed
    run.cov["coq_wall_s"] = round(wall, 2)
    if notclosed:
        raise BrokenTie("proof", "Print Assumptions", "theorems depend on axioms: %r" % notclosed)
    if run.tier == "thorough":
        run.cov["coqchk"] = coqchk(props_v, closure)
    return closure


def coqchk(props_v, closure):
    """independent re-check of the compiled property file and everything it depends on (thorough tier; cached per closure hash)"""
    h = hashlib.sha256()
    for vf in closure:
        h.update(open(os.path.join(COQ, vf), "rb").read())
    mark = os.path.join(CACHE, "coqchk-%s-%s.txt" % (os.path.basename(props_v)[:-2], h.hexdigest()[:16]))
    if os.path.exists(mark):
        return open(mark).read()
    mod = "Bebop." + props_v[:-2].replace("/", ".")
    with Lock("coqchk"):
        rc, so, se = sh(["timeout", "3000", "coqchk", "-silent", "-o", "-Q", COQ, "Bebop", mod], cwd=COQ, timeout=3100)
    out = (so + se).strip()
    if rc != 0:
        raise BrokenTie("proof", "coqchk " + mod, out[-2000:])
    # keep the summary: what the checker says about axioms
    i = out.find("CONTEXT SUMMARY")
    summary = out[i:] if i >= 0 else out[-1500:]
    summary = summary[:3000]
    open(mark, "w").write(summary)
    return summary
