# C02: all encoders emit the same bytes and Size() is their exact length; MarshalBebopTo returns it and never writes past it.
from vcommon import *
import wire, wiregen, wirerun


def check(tier, seed, replay=None):
    run = Run("C02", tier, seed)
    run.cov["rule"] = ("case = (option set, cover record type, value): Size(), MarshalBebop, EncodeBebop, and MarshalBebopTo into 9 dirty buffers "
                       "(fills 00 / FF / pattern x slack 0 / 1 / 7); observables: the four byte strings, the returned n, the bytes beyond Size(); "
                       "byte equality is required when no map has more than one entry, otherwise equal length and equal decoded value")
    run.cov["trusted_base"] = wire.WIRE_TRUSTED
    broken = None
    try:
        wire.maybe_proof(run, "props/C02.v", ["C02"])
    except BrokenTie as e:
        broken = e
    found = False
    try:
        s, shapes, cases, data = wire.v_batch(tier, seed)
    except BrokenTie as e:
        run.violation({"what": "the wire harness no longer builds against /repo", "detail": str(e)}, no_input=True)
        run.finish()
    wire.gen_failure_violation(run, data["fails"], "the generator fails or emits code that does not build for the shape cover")
    wire.summarize_cases(run, cases)
    n = 0
    for o, i, d, tags, v, G, Mo in wire.iter_v(data, cases):
        n += 1
        bad = None
        if "m" not in G or "e" not in G or "t" not in G:
            bad = "an encoder failed: " + G["_raw"][:300]
        else:
            size = int(G["size"])
            if wire.hexlen(G["m"]) != size:
                bad = "len(MarshalBebop) = %d but Size() = %d" % (wire.hexlen(G["m"]), size)
            elif wire.hexlen(G["e"]) != size or G.get("eerr") != "0":
                bad = "EncodeBebop wrote %d bytes (err=%s) but Size() = %d" % (wire.hexlen(G["e"]), G.get("eerr"), size)
            elif "mto-problems" in G["_raw"]:
                bad = "MarshalBebopTo: " + G["_raw"].split("mto-problems=[", 1)[1].split("]", 1)[0][:300]
            elif G.get("mm") == "0" and not (G["m"] == G["e"] == G["t"]):
                bad = "encoders disagree: marshal=%s marshal_to=%s encode=%s" % (G["m"][:120], G["t"][:120], G["e"][:120])
            elif str(size) != Mo.get("size"):
                bad = "Size() = %d but the model's size is %s" % (size, Mo.get("size"))
        if bad:
            found = True
            if len(run.violations) < 3:
                run.violation({"what": bad, "option_set": wirerun.opt_label(o), "type": d.name, "context": tags,
                               "schema_def": s.def_bop(d) if not d.inline else d.name, "value": v})
        if n % 1013 == 0:
            run.sample({"option_set": wirerun.opt_label(o), "type": d.name, "value": v[:160], "size": G.get("size"), "marshal": G.get("m", "")[:80]})
    # float-keyed maps holding a NaN key - an entry a Go map keeps but cannot look up, so an encoder that walks keys and fetches values back loses it:
    # Size() and the three encoders on such values (encoders only: what the byte-path DECODER does with a NaN key is C01's known finding)
    nanrecs = []
    for d, tags in shapes:
        if wiregen.has_float_key(("r", d)) and not any(d is x for x, _ in nanrecs):
            nanrecs.append((d, tags))
    if nanrecs and "1" in data["go"]:
        rngn = SplitMix64(seed).fork("C02-nan")
        ncases = []
        for d, tags in nanrecs:
            for _ in range(4 if tier == "thorough" else 2):
                v = " ".join(wiregen.ValueGen(rngn, "rand", nan_keys=True).record(d))
                ncases.append((d, tags, v))
        sp = wirerun.write_model_schema(s, "c02n")
        ml = wirerun.run_model(sp, ["ENC %d %s" % (d.id, wiregen.unparse(d, wiregen.strip_deprecated(d, wiregen.canon(v)))) for d, _, v in ncases])
        os.remove(sp)
        b = wirerun.build_package(s, 1, "cover")
        gl = wirerun.run_go(b, ["V %s %s" % (d.name, v) for d, _, v in ncases])
        for (d, tags, v), g, m in zip(ncases, gl, ml):
            n += 1
            run.nontrivial(("nan-key", d.name, v))
            G, Mo = wirerun.parse_kv(g), wirerun.parse_kv(m)
            bad = None
            if "m" not in G or "e" not in G or "t" not in G or "size" not in G:
                bad = "an encoder failed on a value with a NaN map key: " + g[:300]
            else:
                size = int(G["size"])
                if wire.hexlen(G["m"]) != size or wire.hexlen(G["e"]) != size:
                    bad = "with a NaN map key: Size() = %d, len(MarshalBebop) = %d, EncodeBebop wrote %d" % (size, wire.hexlen(G["m"]), wire.hexlen(G["e"]))
                elif "mto-problems" in g and "returned" in g.split("mto-problems=[", 1)[1].split("]", 1)[0]:
                    bad = "with a NaN map key: MarshalBebopTo: " + g.split("mto-problems=[", 1)[1].split("]", 1)[0][:300]
                elif str(size) != Mo.get("size"):
                    bad = "with a NaN map key: Size() = %d but the model's size is %s" % (size, Mo.get("size"))
                elif not wiregen.has_multimap(wiregen.canon(v)) and not (G["m"] == G["e"] == G["t"] == Mo.get("enc", G["m"])):
                    bad = "with a NaN map key the encoders disagree (or differ from the reference): marshal=%s marshal_to=%s encode=%s model=%s" % (G["m"][:100], G["t"][:100], G["e"][:100], Mo.get("enc", "")[:100])
        # (no `found` on decode-side oddities: only the encoder observables above)
            if bad:
                found = True
                if len(run.violations) < 4:
                    run.violation({"what": bad, "type": d.name, "schema_def": s.def_bop(d) if not d.inline else d.name, "value": v})
        run.notes["nan_key_encoder_cases"] = len(ncases)
    # the dirty-buffer frame against the model: MarshalBebopTo into a buffer with prior contents, result buffer and n compared byte for byte
    if "1" in data["go"]:
        rng = SplitMix64(seed).fork("C02-mto")
        picks = [c for k, c in enumerate(cases) if k % (3 if tier == "thorough" else 11) == 0]
        ops_go, ops_mo = [], []
        for d, tags, v in picks:
            size = int(wirerun.parse_kv(data["go"]["1"][cases.index((d, tags, v))]).get("size", "0")) if False else None
        sp = wirerun.write_model_schema(s, "c02")
        sizes = [wirerun.parse_kv(m).get("size", "0") for m in data["model"]]
        idx = {id(c): k for k, c in enumerate(cases)}
        for c in picks:
            d, tags, v = c
            size = int(sizes[idx[id(c)]])
            buf = rng.bytes(size + rng.below(9)).hex() or "-"
            ops_go.append("MTO %s %s %s" % (d.name, buf, v))
            ops_mo.append("MTO %d %s %s" % (d.id, buf, v))
        b = wirerun.build_package(s, 1, "cover")
        gl = wirerun.run_go(b, ops_go)
        ml = wirerun.run_model(sp, ops_mo)
        os.remove(sp)
        for c, g, m in zip(picks, gl, ml):
            n += 1
            d, tags, v = c
            same = g == m
            if not same and g.startswith("ok") and m.startswith("ok") and wiregen.has_multimap(wiregen.canon(v)):
                same = g.split()[2] == m.split()[2] and len(g) == len(m)
            if not same:
                found = True
                if len(run.violations) < 4:
                    run.violation({"what": "MarshalBebopTo into a buffer with prior contents differs from the model's frame (encoding ++ untouched tail, n = Size())",
                                   "type": d.name, "value": v, "impl": g[:300], "model": m[:300]})
    # dates the tick domain of the model cannot express (sub-tick, pre-1970, zones, out of range): the encoders must still agree
    if "1" in data["go"]:
        toks = ["D0,0,0", "D0,-1,0", "D-14182940,123456789,0", "D-14182940,999999999,0", "D-1,1,0", "D1600000000,123456789,7200",
                "D32503680000,5,0", "D-30000000000,7,0", "D-62135596800,0,0", "D1,99,0", "D-5,-50,0"]
        dshapes = [c for c in shapes if c[1][1] in ("plain", "arr", "mapS") and c[1][0] in ("struct", "message", "union")
                   and (c[0].fields and (c[0].kind != "union") and (c[0].fields[0][1] if c[0].kind == "struct" else c[0].fields[0][2]) in (("p", "date"), ("a", ("p", "date")), ("m", "string", ("p", "date"))))]
        ops = []
        for d, tags in dshapes:
            ft = d.fields[0][1] if d.kind == "struct" else d.fields[0][2]
            for tok in toks:
                inner = tok if ft[0] == "p" else ("A2 %s %s" % (tok, tok) if ft[0] == "a" else "P1 X41 %s" % tok)
                val = ("T2 %s Z7" % inner) if d.kind == "struct" else ("G2 J %s J Z7" % inner)
                ops.append((d, "V %s %s" % (d.name, val)))
        b = wirerun.build_package(s, 1, "cover")
        res = wirerun.run_go(b, [o for _, o in ops])
        for (d, op), line in zip(ops, res):
            n += 1
            G = wirerun.parse_kv(line)
            bad = None
            if "m" not in G or "e" not in G or "t" not in G:
                bad = "an encoder failed: " + line[:200]
            elif not (G["m"] == G["e"] == G["t"]) or wire.hexlen(G["m"]) != int(G["size"]) or "mto-problems" in line:
                bad = "encoders disagree on a date value: marshal=%s marshal_to=%s encode=%s size=%s" % (G["m"], G["t"], G["e"], G["size"])
            if bad:
                found = True
                if len(run.violations) < 5:
                    run.violation({"what": bad, "type": d.name, "schema_def": s.def_bop(d), "op": op})
        run.notes["date_value_cases"] = len(ops)
    run.count("evaluations", n)
    if broken:
        wire.finish_broken(run, "C02", broken, found)
    run.finish()
