# C01: encode then decode returns the value that was encoded (3 encoders x 3 decoders, every cover shape, option sets).
from vcommon import *
import wire, wiregen, wirerun


def date_cases():
    """(token, expected dump tokens set, finding key or None): values of a date field the model's tick domain cannot express"""
    out = []
    def exp(sec, ns):
        total = sec * 10**9 + ns
        t1 = int(total / 100) if abs(total) < 2**62 else (total // 100 if total >= 0 else -((-total) // 100))
        t1 = (abs(total) // 100) * (1 if total >= 0 else -1)      # truncation toward zero
        t2 = total // 100                                            # floor
        return {wiregen.zt(t1) if t1 else "Z0!epoch", wiregen.zt(t2) if t2 else "Z0!epoch"}
    out.append(("D0,0,0", exp(0, 0), "C01/date/unix-epoch-decodes-as-zero-time"))
    out.append(("D0,99,0", exp(0, 99), "C01/date/unix-epoch-decodes-as-zero-time"))
    out.append(("D0,-42,0", exp(0, -42), "C01/date/unix-epoch-decodes-as-zero-time"))
    out.append(("D-62135596800,0,0", {"Z0"}, None))                     # the zero time itself
    out.append(("D1600000000,123456789,0", exp(1600000000, 123456789), None))
    out.append(("D1600000000,123456700,3600", exp(1600000000, 123456700), None))   # non-UTC zone
    out.append(("D1600000000,123456700,-28800", exp(1600000000, 123456700), None))
    out.append(("D-1000,500,0", exp(-1000, 500), None))
    out.append(("D-14182940,123456789,0", exp(-14182940, 123456789), None))         # 1969, sub-tick
    out.append(("D32503680000,0,0", exp(32503680000, 0), "C01/date/outside-unixnano-range"))    # year 3000
    out.append(("D-9000000000,0,0", exp(-9000000000, 0), None))      # year 1684: inside the UnixNano range
    out.append(("D-30000000000,0,0", exp(-30000000000, 0), "C01/date/outside-unixnano-range"))    # year 1019
    return out


def check(tier, seed, replay=None):
    run = Run("C01", tier, seed)
    run.cov["rule"] = ("case = (option set, cover record type, value); every value goes through MarshalBebop, MarshalBebopTo (dirty buffers) and EncodeBebop, "
                       "and each encoding through UnmarshalBebop, MustUnmarshalBebop and DecodeBebop under 3 read schedules; the decoded value must equal the "
                       "input with deprecated message fields dropped; distinct = distinct (type, value); all cover types contain a container or record template")
    run.cov["trusted_base"] = wire.WIRE_TRUSTED
    broken = None
    try:
        wire.maybe_proof(run, "props/C01.v", ["C01"])
    except BrokenTie as e:
        broken = e
    found = False
    try:
        s, shapes, cases, data = wire.v_batch(tier, seed)
    except BrokenTie as e:
        run.violation({"what": "the wire harness no longer builds against /repo", "detail": str(e)}, no_input=True)
        run.finish()
    wire.gen_failure_violation(run, data["fails"], "the generator fails or emits code that does not build for the shape cover (accepted schema)")
    wire.summarize_cases(run, cases)
    n = 0
    for o, i, d, tags, v, G, Mo in wire.iter_v(data, cases):
        n += 1
        want = wiregen.strip_deprecated(d, wiregen.canon(v))
        groups = wire.decode_groups(G)
        bad = None
        if not groups:
            bad = ("no decode result", G["_raw"][:300])
        for k, dump in groups.items():
            if "!" in dump.replace("!consumed", "") or dump.startswith("panic") or dump == "err":
                bad = (k, dump[:300])
                break
            try:
                got = wiregen.canon(dump.split(" !consumed")[0])
            except Exception:
                bad = (k, dump[:300])
                break
            if got != want:
                bad = (k, dump[:300])
                break
        if bad:
            found = True
            if len(run.violations) < 3:
                run.violation({"what": "decode(encode(v)) differs from v", "option_set": wirerun.opt_label(o), "type": d.name, "context": tags,
                               "schema_def": s.def_bop(d) if not d.inline else d.name, "value": v, "pairing": bad[0], "decoded": bad[1]})
        if n % 997 == 0:
            run.sample({"option_set": wirerun.opt_label(o), "type": d.name, "schema_def": (s.def_bop(d) if not d.inline else d.name)[:200], "value": v[:200], "decoded_all_pairings": G.get("|d", "")[:200]})
    run.count("evaluations", n)
    # dates outside the model's tick domain: direct check on the implementation
    ds = [c for c in cases if c[1] == ("struct", "plain") and c[0].fields[0][1] == ("p", "date")][:1]
    if ds and "1" in data["go"]:
        d = ds[0][0]
        dc = date_cases()
        ops = ["V %s T2 %s Z7" % (d.name, tok) for tok, _, _ in dc]
        b = wirerun.build_package(s, 1, "cover")
        res = wirerun.run_go(b, ops)
        for (tok, exp, key), line in zip(dc, res):
            G = wirerun.parse_kv(line)
            groups = wire.decode_groups(G)
            ok = bool(groups) and all(dump.split()[1:2] and dump.split()[1] in exp for dump in groups.values() if True)
            run.count("evaluations")
            if not ok:
                what = "date %s does not survive the round trip as a UTC time at 100ns resolution: %s" % (tok, sorted(set(groups.values()))[:2])
                if key and run.known(key, what):
                    continue
                found = True
                run.violation({"what": what, "type": d.name, "value": "T2 %s Z7" % tok, "expected_one_of": sorted(exp), "result": line[:400]})
    if broken:
        wire.finish_broken(run, "C01", broken, found)
    run.finish()
