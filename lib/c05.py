# C05: stream decoding consumes exactly one record, however reads are chunked; back-to-back records are read back in order.
from vcommon import *
import wire, wiregen, wirerun


def schedules(rng, total, tier):
    out = ["-", ",".join(["1"] * (total + 8))]
    out.append(",".join(str(1 + (k % 2) * 2) for k in range(total + 8)))
    for _ in range(3 if tier == "thorough" else 1):
        out.append(",".join(str(1 + rng.below(9)) for _ in range(total // 2 + 8)))
    return out


def check(tier, seed, replay=None):
    run = Run("C05", tier, seed)
    run.cov["rule"] = ("(a) every cover value: DecodeBebop of each of the three encodings followed by 3 sentinel bytes, under 3 read schedules, must consume exactly Size() bytes; "
                       "(b) histories: 1-5 records of mixed cover types written back to back with EncodeBebop, decoded in order from ONE reader under several "
                       "chunk schedules (all at once, one byte at a time, alternating 1/3, random) and from the standard library's readers (bytes.Reader, bytes.Buffer, strings.Reader, a 16-byte bufio.Reader over the chunking reader); observables: the reader position after each record and the decoded sequence; "
                       "compared with the extracted model's sdec and with the values that were written")
    run.cov["trusted_base"] = wire.WIRE_TRUSTED
    broken = None
    try:
        wire.maybe_proof(run, "props/C05.v", ["C05", "C05_size"])
    except BrokenTie as e:
        broken = e
    found = False
    try:
        s, shapes, cases, data = wire.v_batch(tier, seed)
    except BrokenTie as e:
        run.violation({"what": "the wire harness no longer builds against /repo", "detail": str(e)}, no_input=True)
        run.finish()
    wire.gen_failure_violation(run, data["fails"], "the generator fails or emits code that does not build for the shape cover")
    wire.summarize_cases(run, cases)
    n = 0
    for o, i, d, tags, v, G, Mo in wire.iter_v(data, cases):
        n += 1
        groups = wire.decode_groups(G)
        for k, dump in groups.items():
            if "!consumed" in dump:
                found = True
                if len(run.violations) < 3:
                    run.violation({"what": "DecodeBebop consumed a different number of bytes than the record has", "option_set": wirerun.opt_label(o), "type": d.name,
                                   "schema_def": s.def_bop(d) if not d.inline else d.name, "value": v, "pairing": k, "result": dump[-200:]})
                break
    # histories
    if "1" in data["go"]:
        rng = SplitMix64(seed).fork("C05-seq")
        lines = data["go"]["1"]
        enc = []
        for (d, tags, v), g in zip(cases, lines):
            G = wirerun.parse_kv(g)
            if "e" in G:
                enc.append((d, v, G["e"]))
        nseq = 2500 if tier == "thorough" else 500
        ops_go, ops_mo, metas = [], [], []
        for q in range(nseq):
            k = 1 + rng.below(5)
            seq = [enc[rng.below(len(enc))] for _ in range(k)]
            hexs = "".join(e for _, _, e in seq if e != "-") or "-"
            total = wire.hexlen(hexs)
            scheds = schedules(rng, total, tier)
            # and from the standard library's own readers (bytes.Reader, bytes.Buffer, strings.Reader, a small bufio.Reader over the chunking reader): they
            # also implement io.ByteReader / io.WriterTo / io.RuneReader, which a decoder might be tempted to use; the model's reader has no such thing, so
            # its answer is the same as for the plain reader
            kinds = ["b:-", "f:-", "s:-", "u:" + scheds[-1]] if q % 2 == 0 or tier == "thorough" else ["bfsu"[q % 4] + ":" + scheds[-1 if q % 4 == 3 else 0]]
            for sch in scheds + kinds:
                ops_go.append("SSEQ %s %s %s" % (",".join(d.name for d, _, _ in seq), sch, (hexs if hexs != "-" else "") + "eeee"))
                ops_mo.append("SSEQ %s %s %s" % (",".join(str(d.id) for d, _, _ in seq), sch[2:] if sch[1:2] == ":" else sch, (hexs if hexs != "-" else "") + "eeee"))
                metas.append(seq)
        b = wirerun.build_package(s, 1, "cover")
        sp = wirerun.write_model_schema(s, "c05")
        gl = wirerun.run_go(b, ops_go)
        ml = wirerun.run_model(sp, ops_mo)
        os.remove(sp)
        for seq, og, g, m in zip(metas, ops_go, gl, ml):
            n += 1
            run.nontrivial(og[:200])
            bad = None
            parts = g.split(" ; ")
            pos = 0
            if len(parts) != len(seq):
                bad = "wrong number of results"
            else:
                for (d, v, e), part in zip(seq, parts):
                    pos += wire.hexlen(e)
                    want = wiregen.strip_deprecated(d, wiregen.canon(v))
                    if not part.startswith("ok "):
                        bad = "record of type %s: %s" % (d.name, part[:120])
                        break
                    body, _, at = part[3:].rpartition(" @")
                    if int(at) != pos:
                        bad = "after the record of type %s the reader is at %s, the record ends at %d" % (d.name, at, pos)
                        break
                    if wiregen.canon(body) != want:
                        bad = "record of type %s read back as a different value: %s" % (d.name, body[:200])
                        break
            if bad is None and g != m:
                # same observables, different text can only be map order
                if [p.rpartition(" @")[2] for p in g.split(" ; ")] != [p.rpartition(" @")[2] for p in m.split(" ; ")]:
                    bad = "implementation and model disagree on reader positions: impl=%s model=%s" % (g[-200:], m[-200:])
            if bad:
                found = True
                if len(run.violations) < 4:
                    run.violation({"what": bad, "op": og[:1500], "impl": g[:600], "model": m[:600]})
            if n % 701 == 0:
                run.sample({"op": og[:200], "result": g[:200]})
        run.notes["histories"] = len(metas)
    run.count("evaluations", n)
    if broken:
        wire.finish_broken(run, "C05", broken, found)
    run.finish()
