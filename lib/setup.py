# ./check setup : build everything from files on disk (Coq from clean, translators, extracted models)
import os, shutil, sys
from vcommon import *


def sync_baseline():
    import c20
    c20.sync_baseline()
    print("baseline synced")


def main():
    t0 = time.time()
    ensure_tool("t1")
    translate_t1()
    run_translator("t4", [os.path.join(REPO, "main", "bebopc-go", "main.go"), os.path.join(REPO, "main", "bebopfmt", "main.go")], "gen/CliSteps.v", "T4(main/*/main.go)")
    run_translator("t2", [os.path.join(REPO, "primitive.go"), os.path.join(REPO, "gen_templates.go")], "gen/Tables.v", "T2(primitive.go, gen_templates.go)")
    run_translator("t5", [os.path.join(REPO, "gen.go")], "gen/GenAppends.v", "T5(gen.go: File.Generate)")
    run_translator("t6", [os.path.join(REPO, "token.go"), os.path.join(REPO, "tokenize.go")], "gen/TokTable.v", "T6(token.go, tokenize.go)")
    coq_makefile()
    rc, so, se = sh(["make", "-j16"], cwd=COQ, timeout=3000)
    open(os.path.join(LOGS, "setup-coq.log"), "w").write(so + se)
    if rc != 0:
        print(so[-3000:], se[-3000:])
        print("setup: Coq build failed")
        sys.exit(1)
    import c20
    c20.build_model()
    c20.build_model(baseline=True)
    # wire family: extracted model, generator front end, the cover packages under the quick option sets, the evolution pair
    import wire, wirerun, wiregen, c04
    wirerun.model_bin()
    sc, shapes = wiregen.build_cover(2)
    res = wire.build_all(sc, wire.QUICK_OPTS)
    for o, r in res.items():
        if isinstance(r, Exception):
            print("setup: cover package under option set %s does not build: %s" % (o, r))
    s1, s2, _ = c04.build_pair()
    for sx, lab in ((s1, "evo1"), (s2, "evo2")):
        try:
            wirerun.build_package(sx, 1, lab)
        except Exception as e:
            print("setup: evolution package %s does not build: %s" % (lab, e))
    import frontrun
    frontrun.model_bin()
    try:
        frontrun.fexec_bin()
    except Exception as e:
        print("setup: fexec does not build: %s" % e)
    import c12, c18, c19
    for f in (lambda: c18.sys_model(), lambda: c18.gexec_bin(), lambda: c18.gexec_bin(race=True), lambda: c12.tcheck_bin(),
              lambda: c19.build_cli("bebopc-go"), lambda: c19.build_cli("bebopfmt"), lambda: ensure_tool("t4"), lambda: ensure_tool("t5")):
        try:
            f()
        except Exception as e:
            print("setup: %s" % e)
    print("setup done in %.0fs" % (time.time() - t0))
