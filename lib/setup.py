# ./check setup : build everything from files on disk (Coq from clean, translators, extracted models)
import os, shutil, sys
from vcommon import *


def sync_baseline():
    import c20
    c20.sync_baseline()
    print("baseline synced")


def main():
    t0 = time.time()
    ensure_tool("t1")
    translate_t1()
    coq_makefile()
    rc, so, se = sh(["make", "-j16"], cwd=COQ, timeout=3000)
    open(os.path.join(LOGS, "setup-coq.log"), "w").write(so + se)
    if rc != 0:
        print(so[-3000:], se[-3000:])
        print("setup: Coq build failed")
        sys.exit(1)
    import c20
    c20.build_model()
    c20.build_model(baseline=True)
    print("setup done in %.0fs" % (time.time() - t0))
