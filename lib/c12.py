# C12: whatever the compiler accepts, it turns into Go code that compiles - partial by nature (Go's type system is not modelled;
# go/types is the judge, on an enumeration).
import os, shutil, re
from vcommon import *
import front, frontgen, wire, wiregen, wirerun

KEY_NESTED = ("C12/nested-container-in-message-field", "a container nested in a container as a MESSAGE field (array of arrays, map of arrays, array of maps ...) generates a DecodeBebop that does not compile (`cannot index`, loop variable `i` reused)")


def tcheck_bin():
    src = os.path.join(VERIF, "go", "cmd", "tcheck")
    h = hashlib.sha256(open(os.path.join(src, "main.go"), "rb").read()).hexdigest()[:12]
    out = os.path.join(BIN, "tcheck-" + h)
    if not os.path.exists(out):
        with Lock("tcheck"):
            if not os.path.exists(out):
                go_build(src, out)
    return out


KEY_COLLIDE = ("C12/private-name-collides-with-generated-identifier", "with private definitions a record whose lower-cased name is `r`, `buf` or an imported package name (iohelp, io, bebop, time, ...) "
               "collides with an identifier of the generated file: it does not type-check")
COLLIDING = {"r", "buf", "iohelp", "io", "bebop", "time", "math", "sync", "unsafe"}


def private_collision(txt, o, line):
    """the known finding, narrowly: private definitions are on, the type checker names an identifier of the colliding set, and a record of the schema has exactly that private name"""
    import re
    if not o & 8:
        return False
    m = re.match(r"err (\w+) (is not a type|already declared through import of package|redeclared)", line)
    if not m or m.group(1) not in COLLIDING:
        return False
    names = re.findall(r"\b(?:struct|message|union)\s+(\w+)", txt)
    return m.group(1) in {n[0].lower() + n[1:] for n in names}


def nested_in_message(items):
    def nested(t):
        return t[0] in "am" and (t[1] if t[0] == "a" else t[2])[0] in "am"
    for it in items:
        defs = [it] if it["kind"] == "message" else ([b["def"] for b in it["branches"] if b["def"]["kind"] == "message"] if it["kind"] == "union" else [])
        for d in defs:
            if any(nested(f["type"]) for f in d["fields"]):
                return True
    return False


def single_use_schemas(full=False):
    out = []
    for p in wiregen.PRIMS:
        for pos, ft in (("plain", p), ("arr", p + "[]"), ("arr2", p + "[][]"), ("mapkey", "map[%s, bool]" % p), ("mapval", "map[uint8, %s]" % p), ("maparr", "map[uint8, %s[]]" % p)):
            if pos == "mapkey" and p == "bool":
                ft = "map[bool, uint8]"
            out.append("struct S { %s f; }\n" % ft)
            out.append("message M { 1 -> %s f; }\n" % ft)
            out.append("union U { 2 -> struct B { %s f; } }\n" % ft)
    for b in wiregen.ENUM_BASES:
        for ft in ("E", "E[]", "map[string, E]"):
            out.append("enum E : %s { A = 1; B = 2; }\nstruct S { %s f; }\n" % (b, ft))
            out.append("enum E : %s { A = 1; B = 2; }\nmessage M { 3 -> %s f; }\n" % (b, ft))
    for c in ('float32 a = inf', 'float64 a = -inf', 'float64 a = nan', 'float32 a = 1.5', 'string a = "x"', 'bool a = true', 'int64 a = -5', 'uint8 a = 16', 'int32 a = 0x10',
              'guid a = "01234567-89ab-cdef-0123-456789abcdef"', 'uint64 a = 18446744073709551615', 'int16 a = -32768', 'byte a = 255'):
        out.append("const %s;\n" % c)
    out.append("struct E0 {}\n")
    out.append("message M0 {}\n")
    out.append("struct S { E0 e; }\nstruct E0 {}\n")
    out.append("readonly struct R { date d; }\n")
    # record / enum names against what the generated code itself uses: lower-case names (declared capitalised, so every reference must be too), and names whose
    # private form is a Go keyword, a predeclared identifier, an imported package or a variable of the generated functions (Generate must refuse those)
    names = ["point", "r", "buf", "io", "time", "iohelp", "bebop", "w", "v", "err", "at", "i", "k", "k1", "ln2", "bbp", "elem", "iow", "ior", "bodyLen", "tmp", "baseReader",
             "type", "func", "range", "go", "len", "make", "new", "nil", "copy", "error", "int", "byte_", "any", "print", "append", "math", "sync", "fmt", "string_", "true_"]
    if full:
        names += ("break default interface select case defer map_ struct_ chan else goto package switch const_ fallthrough if for import_ return var continue "
                  "complex64 complex128 rune uint uintptr iota cap close complex delete imag panic println real recover comparable min max clear unsafe bytes errors strings "
                  "uint8_ int32_ float64_ bool_ i1 i2 v1 v2 ln1 elem1").split()
    for nm in names:
        for cap in (nm, nm[0].upper() + nm[1:]):
            out.append("struct %s { date d; string[] s; map[string, int32] m; }\nmessage %sM { 1 -> %s a; 2 -> %s[] b; }\nenum %sE { A = 1; }\nunion %sU { 1 -> struct %sB { %sE e; } }\n" % ((cap,) * 8))
    out.append("[opcode(\"ABCD\")]\nstruct O { guid g; }\n")
    return out


def check(tier, seed, replay=None):
    run = Run("C12", tier, seed)
    run.cov["rule"] = ("(a) the shape cover of the wire checks (every leaf type x container nesting x record context) generated under each option set must build (it is the package the wire checks "
                       "execute); (b) generated schemas that ReadFile + Generate accept (every construct, random types incl. nested containers, opcodes, consts, enums, unions, deprecations, "
                       "tags) under 4 (thorough: all 32) option sets, each type-checked on its own with go/types against /repo's bebop and iohelp (source importer) - which includes the generated "
                       "`var _ bebop.Record = &T{}` assertions; (c) single-use schemas (each primitive / enum base in exactly one position - plain, array, map key, map value - of one struct, message or "
                       "union branch, and one const per type, with nothing else in the file) under the default and the all-options set (thorough: all 32); distinct = distinct (schema text, option set)")
    run.cov["trusted_base"] = TRUSTED_BASE_COMMON + ["translator T2 (go/cmd/t2): the type-name constants, type sets, decodeIntegerType and fixedSizeTypes as association lists", "go/types with the source importer as the judge of `compiles` (an enumeration, not a proof: Go's type system is not modelled)"]
    run.cov["explanation"] = ("partial by nature: no theorem states that accepted schemas compile (Go's type system is not modelled); proved: the generator's type tables, regenerated by "
                              "translator T2, are total over the primitive types and agree with iohelp's widths and with the wire model (C12_tables); the rest is an enumeration against the real type checker")
    found = False
    broken = None
    n_single = 0
    try:
        run_translator("t2", [os.path.join(REPO, "primitive.go"), os.path.join(REPO, "gen_templates.go")], "gen/Tables.v", "T2(primitive.go, gen_templates.go)")
        translate_t1()
        proof_step(run, "props/C12.v", ["C12_tables", "C12_keys"])
    except BrokenTie as e:
        broken = e
    try:
        bgen = wirerun.bgen_bin()
        tc = tcheck_bin()
    except BrokenTie as e:
        run.violation({"what": "the generator harness no longer builds against /repo", "detail": str(e)}, no_input=True)
        run.finish()
    opts = wire.opts_for(tier)
    # (a) the cover
    s, shapes = wiregen.build_cover(2)
    res = wire.build_all(s, opts)
    n = 0
    for o, r in res.items():
        n += 1
        if isinstance(r, Exception):
            found = True
            run.violation({"what": "the shape cover does not build under option set %s: %s" % (wirerun.opt_label(o), getattr(r, "stage", "?")), "detail": getattr(r, "detail", str(r))[-1500:]})
    run.notes["cover_record_types"] = len(s.defs)
    # (b) random accepted schemas, one package each
    rng = SplitMix64(seed).fork("C12")
    asts = front.gen_asts(rng, 400 if tier == "thorough" else 90, flags_enums=False, imports=False)
    d = os.path.join(WORK, "c12-%d" % os.getpid())
    shutil.rmtree(d, ignore_errors=True)
    os.makedirs(d)
    try:
        cases = []
        for i, items in enumerate(asts):
            seen = set()
            for it in items:          # opcodes must be unique for Generate to accept
                if it.get("opcode") is not None and it["opcode"] in seen:
                    it["opcode"] = None
                seen.add(it.get("opcode"))
            txt = frontgen.render(items, frontgen.Layout(canonical=True))
            bop = os.path.join(d, "s%d.bop" % i)
            open(bop, "w").write(txt)
            for o in opts:
                out = os.path.join(d, "s%d_o%d.go" % (i, o))
                rc, so, se = sh([bgen, bop, out, "pkg", str(o)], timeout=60)
                if rc == 0:
                    cases.append((items, txt, o, out))
                elif rc == 5:
                    found = True
                    run.violation({"what": "the generator panics on an accepted schema", "schema": txt, "option_set": wirerun.opt_label(o), "detail": se[-600:]})
        # (c) single-use schemas: one type in one position in one kind of record and nothing else, so that every import and helper the
        #     generated file needs has to be derived from that one use
        for j, txt in enumerate(single_use_schemas(tier == "thorough")):
            bop = os.path.join(d, "u%d.bop" % j)
            open(bop, "w").write(txt)
            for o in (opts if tier == "thorough" else [0, 31]):
                out = os.path.join(d, "u%d_o%d.go" % (j, o))
                rc, so, se = sh([bgen, bop, out, "pkg", str(o)], timeout=60)
                if rc == 0:
                    cases.append((None, txt, o, out))
                    n_single += 1
                elif rc == 5:
                    found = True
                    run.violation({"what": "the generator panics on an accepted schema", "schema": txt, "option_set": wirerun.opt_label(o), "detail": se[-600:]})
        # go/types' source importer resolves github.com/200sc/bebop through the module in /verif/go: run from there
        lines = []
        if cases:
            inp = "\n".join(c[3] for c in cases) + "\n"
            rc, so, se = sh([tc], cwd=os.path.join(VERIF, "go"), stdin=inp, timeout=1500)
            lines = so.split("\n")[:-1]
    finally:
        shutil.rmtree(d, ignore_errors=True)
    tally = {"ok": 0, "err": 0}
    for (items, txt, o, out), line in zip(cases, lines):
        n += 1
        run.nontrivial((txt, o))
        if line == "ok":
            tally["ok"] += 1
            continue
        tally["err"] += 1
        if items is not None and nested_in_message(items) and run.known(*KEY_NESTED):
            continue
        found = True
        if len(run.violations) < 4:
            run.violation({"what": "generated code does not type-check: " + line[:300], "schema": txt, "option_set": wirerun.opt_label(o)})
    if len(lines) != len(cases):
        found = True
        run.violation({"what": "the type-check harness stopped early (%d of %d)" % (len(lines), len(cases))}, no_input=True)
    run.count("evaluations", n)
    run.notes["typecheck"] = tally
    run.notes["single_use_cases"] = n_single
    run.sample({"schema": cases[0][1][:300], "option_set": wirerun.opt_label(cases[0][2]), "result": lines[0] if lines else "?"} if cases else {})
    if broken:
        run.broken_tie(broken)
        if not found:
            run.violation({"what": "C12 is no longer shown to hold", "broken_kind": broken.kind, "no_longer_checks": broken.name, "detail": broken.detail[-1500:]}, no_input=True)
    run.finish()
