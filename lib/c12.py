# C12: whatever the compiler accepts, it turns into Go code that compiles - partial by nature (Go's type system is not modelled;
# go/types is the judge, on an enumeration).
import os, shutil, re
from vcommon import *
import front, frontgen, wire, wiregen, wirerun

KEY_NESTED = ("C12/nested-container-in-message-field", "a container nested in a container as a MESSAGE field (array of arrays, map of arrays, array of maps ...) generates a DecodeBebop that does not compile (`cannot index`, loop variable `i` reused)")


def tcheck_bin():
    src = os.path.join(VERIF, "go", "cmd", "tcheck")
    h = hashlib.sha256(open(os.path.join(src, "main.go"), "rb").read()).hexdigest()[:12]
    out = os.path.join(BIN, "tcheck-" + h)
    if not os.path.exists(out):
        with Lock("tcheck"):
            if not os.path.exists(out):
                go_build(src, out)
    return out


KEY_COLLIDE = ("C12/private-name-collides-with-generated-identifier", "with private definitions a record whose lower-cased name is `r`, `buf` or an imported package name (iohelp, io, bebop, time, ...) "
               "collides with an identifier of the generated file: it does not type-check")
COLLIDING = {"r", "buf", "iohelp", "io", "bebop", "time", "math", "sync", "unsafe"}


def private_collision(txt, o, line):
    """the known finding, narrowly: private definitions are on, the type checker names an identifier of the colliding set, and a record of the schema has exactly that private name"""
    import re
    if not o & 8:
        return False
    m = re.match(r"err (\w+) (is not a type|already declared through import of package|redeclared)", line)
    if not m or m.group(1) not in COLLIDING:
        return False
    names = re.findall(r"\b(?:struct|message|union)\s+(\w+)", txt)
    return m.group(1) in {n[0].lower() + n[1:] for n in names}


def nested_in_message(items):
    def nested(t):
        return t[0] in "am" and (t[1] if t[0] == "a" else t[2])[0] in "am"
    for it in items:
        defs = [it] if it["kind"] == "message" else ([b["def"] for b in it["branches"] if b["def"]["kind"] == "message"] if it["kind"] == "union" else [])
        for d in defs:
            if any(nested(f["type"]) for f in d["fields"]):
                return True
    return False


def single_use_schemas():
    out = []
    for p in wiregen.PRIMS:
        for pos, ft in (("plain", p), ("arr", p + "[]"), ("arr2", p + "[][]"), ("mapkey", "map[%s, bool]" % p), ("mapval", "map[uint8, %s]" % p), ("maparr", "map[uint8, %s[]]" % p)):
            if pos == "mapkey" and p == "bool":
                ft = "map[bool, uint8]"
            out.append("struct S { %s f; }\n" % ft)
            out.append("message M { 1 -> %s f; }\n" % ft)
            out.append("union U { 2 -> struct B { %s f; } }\n" % ft)
    for b in wiregen.ENUM_BASES:
        for ft in ("E", "E[]", "map[string, E]"):
            out.append("enum E : %s { A = 1; B = 2; }\nstruct S { %s f; }\n" % (b, ft))
            out.append("enum E : %s { A = 1; B = 2; }\nmessage M { 3 -> %s f; }\n" % (b, ft))
    for c in ('float32 a = inf', 'float64 a = -inf', 'float64 a = nan', 'float32 a = 1.5', 'string a = "x"', 'bool a = true', 'int64 a = -5', 'uint8 a = 16', 'int32 a = 0x10',
              'guid a = "01234567-89ab-cdef-0123-456789abcdef"', 'uint64 a = 18446744073709551615', 'int16 a = -32768', 'byte a = 255'):
        out.append("const %s;\n" % c)
    out.append("struct E0 {}\n")
    out.append("message M0 {}\n")
    out.append("struct S { E0 e; }\nstruct E0 {}\n")
    out.append("readonly struct R { date d; }\n")
    for nm in ("Buf", "Io", "Time", "W", "V", "Err", "At", "I", "K", "Bbp", "Elem", "Ln", "Iow", "Ior"):      # names whose private form is an identifier the generated code uses
        out.append("struct %s { date d; string[] s; map[string, int32] m; }\n" % nm)
        out.append("message %s { 1 -> date d; 2 -> string[] s; }\n" % nm)
    out.append("[opcode(\"ABCD\")]\nstruct O { guid g; }\n")
    return out


def check(tier, seed, replay=None):
    run = Run("C12", tier, seed)
    run.cov["rule"] = ("(a) the shape cover of the wire checks (every leaf type x container nesting x record context) generated under each option set must build (it is the package the wire checks "
                       "execute); (b) generated schemas that ReadFile + Generate accept (every construct, random types incl. nested containers, opcodes, consts, enums, unions, deprecations, "
                       "tags) under 4 (thorough: all 32) option sets, each type-checked on its own with go/types against /repo's bebop and iohelp (source importer) - which includes the generated "
                       "`var _ bebop.Record = &T{}` assertions; (c) single-use schemas (each primitive / enum base in exactly one position - plain, array, map key, map value - of one struct, message or "
                       "union branch, and one const per type, with nothing else in the file) under the default and the all-options set (thorough: all 32); distinct = distinct (schema text, option set)")
    run.cov["trusted_base"] = TRUSTED_BASE_COMMON + ["translator T2 (go/cmd/t2): the type-name constants, type sets, decodeIntegerType and fixedSizeTypes as association lists", "go/types with the source importer as the judge of `compiles` (an enumeration, not a proof: Go's type system is not modelled)"]
    run.cov["explanation"] = ("partial by nature: no theorem states that accepted schemas compile (Go's type system is not modelled); proved: the generator's type tables, regenerated by "
                              "translator T2, are total over the primitive types and agree with iohelp's widths and with the wire model (C12_tables); the rest is an enumeration against the real type checker")
    found = False
    broken = None
    n_single = 0
    try:
        run_translator("t2", [os.path.join(REPO, "primitive.go"), os.path.join(REPO, "gen_templates.go")], "gen/Tables.v", "T2(primitive.go, gen_templates.go)")
        translate_t1()
        proof_step(run, "props/C12.v", ["C12_tables"])
    except BrokenTie as e:
        broken = e
    try:
        bgen = wirerun.bgen_bin()
        tc = tcheck_bin()
    except BrokenTie as e:
        run.violation({"what": "the generator harness no longer builds against /repo", "detail": str(e)}, no_input=True)
        run.finish()
    opts = wire.opts_for(tier)
    # (a) the cover
    s, shapes = wiregen.build_cover(2)
    res = wire.build_all(s, opts)
    n = 0
    for o, r in res.items():
        n += 1
        if isinstance(r, Exception):
            found = True
            run.violation({"what": "the shape cover does not build under option set %s: %s" % (wirerun.opt_label(o), getattr(r, "stage", "?")), "detail": getattr(r, "detail", str(r))[-1500:]})
    run.notes["cover_record_types"] = len(s.defs)
    # (b) random accepted schemas, one package each
    rng = SplitMix64(seed).fork("C12")
    asts = front.gen_asts(rng, 400 if tier == "thorough" else 90, flags_enums=False, imports=False)
    d = os.path.join(WORK, "c12-%d" % os.getpid())
    shutil.rmtree(d, ignore_errors=True)
    os.makedirs(d)
    try:
        cases = []
        for i, items in enumerate(asts):
            seen = set()
            for it in items:          # opcodes must be unique for Generate to accept
                if it.get("opcode") is not None and it["opcode"] in seen:
                    it["opcode"] = None
                seen.add(it.get("opcode"))
            txt = frontgen.render(items, frontgen.Layout(canonical=True))
            bop = os.path.join(d, "s%d.bop" % i)
            open(bop, "w").write(txt)
            for o in opts:
                out = os.path.join(d, "s%d_o%d.go" % (i, o))
                rc, so, se = sh([bgen, bop, out, "pkg", str(o)], timeout=60)
                if rc == 0:
                    cases.append((items, txt, o, out))
                elif rc == 5:
                    found = True
                    run.violation({"what": "the generator panics on an accepted schema", "schema": txt, "option_set": wirerun.opt_label(o), "detail": se[-600:]})
        # (c) single-use schemas: one type in one position in one kind of record and nothing else, so that every import and helper the
        #     generated file needs has to be derived from that one use
        for j, txt in enumerate(single_use_schemas()):
            bop = os.path.join(d, "u%d.bop" % j)
            open(bop, "w").write(txt)
            for o in (opts if tier == "thorough" else [0, 31]):
                out = os.path.join(d, "u%d_o%d.go" % (j, o))
                rc, so, se = sh([bgen, bop, out, "pkg", str(o)], timeout=60)
                if rc == 0:
                    cases.append((None, txt, o, out))
                    n_single += 1
                elif rc == 5:
                    found = True
                    run.violation({"what": "the generator panics on an accepted schema", "schema": txt, "option_set": wirerun.opt_label(o), "detail": se[-600:]})
        # go/types' source importer resolves github.com/200sc/bebop through the module in /verif/go: run from there
        lines = []
        if cases:
            inp = "\n".join(c[3] for c in cases) + "\n"
            rc, so, se = sh([tc], cwd=os.path.join(VERIF, "go"), stdin=inp, timeout=1500)
            lines = so.split("\n")[:-1]
    finally:
        shutil.rmtree(d, ignore_errors=True)
    tally = {"ok": 0, "err": 0}
    for (items, txt, o, out), line in zip(cases, lines):
        n += 1
        run.nontrivial((txt, o))
        if line == "ok":
            tally["ok"] += 1
            continue
        tally["err"] += 1
        if items is not None and nested_in_message(items) and run.known(*KEY_NESTED):
            continue
        if private_collision(txt, o, line) and run.known(*KEY_COLLIDE):
            continue
        found = True
        if len(run.violations) < 4:
            run.violation({"what": "generated code does not type-check: " + line[:300], "schema": txt, "option_set": wirerun.opt_label(o)})
    if len(lines) != len(cases):
        found = True
        run.violation({"what": "the type-check harness stopped early (%d of %d)" % (len(lines), len(cases))}, no_input=True)
    run.count("evaluations", n)
    run.notes["typecheck"] = tally
    run.notes["single_use_cases"] = n_single
    run.sample({"schema": cases[0][1][:300], "option_set": wirerun.opt_label(cases[0][2]), "result": lines[0] if lines else "?"} if cases else {})
    if broken:
        run.broken_tie(broken)
        if not found:
            run.violation({"what": "C12 is no longer shown to hold", "broken_kind": broken.kind, "no_longer_checks": broken.name, "detail": broken.detail[-1500:]}, no_input=True)
    run.finish()
