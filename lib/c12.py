# C12: whatever the compiler accepts, it turns into Go code that compiles - partial by nature (Go's type system is not modelled;
# go/types is the judge, on an enumeration).
import os, shutil, re
from vcommon import *
import front, frontgen, wire, wiregen, wirerun

KEY_NESTED = ("C12/nested-container-in-message-field", "a container nested in a container as a MESSAGE field (array of arrays, map of arrays, array of maps ...) generates a DecodeBebop that does not compile (`cannot index`, loop variable `i` reused)")


def tcheck_bin():
    src = os.path.join(VERIF, "go", "cmd", "tcheck")
    h = hashlib.sha256(open(os.path.join(src, "main.go"), "rb").read()).hexdigest()[:12]
    out = os.path.join(BIN, "tcheck-" + h)
    if not os.path.exists(out):
        with Lock("tcheck"):
            if not os.path.exists(out):
                go_build(src, out)
    return out


def nested_in_message(items):
    def nested(t):
        return t[0] in "am" and (t[1] if t[0] == "a" else t[2])[0] in "am"
    for it in items:
        defs = [it] if it["kind"] == "message" else ([b["def"] for b in it["branches"] if b["def"]["kind"] == "message"] if it["kind"] == "union" else [])
        for d in defs:
            if any(nested(f["type"]) for f in d["fields"]):
                return True
    return False


def check(tier, seed, replay=None):
    run = Run("C12", tier, seed)
    run.cov["rule"] = ("(a) the shape cover of the wire checks (every leaf type x container nesting x record context) generated under each option set must build (it is the package the wire checks "
                       "execute); (b) generated schemas that ReadFile + Generate accept (every construct, random types incl. nested containers, opcodes, consts, enums, unions, deprecations, "
                       "tags) under 4 (thorough: all 32) option sets, each type-checked on its own with go/types against /repo's bebop and iohelp (source importer) - which includes the generated "
                       "`var _ bebop.Record = &T{}` assertions; distinct = distinct (schema text, option set)")
    run.cov["trusted_base"] = TRUSTED_BASE_COMMON + ["go/types with the source importer as the judge of `compiles` (an enumeration, not a proof: Go's type system is not modelled)"]
    run.cov["explanation"] = ("partial by nature: no theorem states that accepted schemas compile; the decision procedures behind the known failures are exercised by enumeration against the real type checker")
    found = False
    try:
        bgen = wirerun.bgen_bin()
        tc = tcheck_bin()
    except BrokenTie as e:
        run.violation({"what": "the generator harness no longer builds against /repo", "detail": str(e)}, no_input=True)
        run.finish()
    opts = wire.opts_for(tier)
    # (a) the cover
    s, shapes = wiregen.build_cover(2)
    res = wire.build_all(s, opts)
    n = 0
    for o, r in res.items():
        n += 1
        if isinstance(r, Exception):
            found = True
            run.violation({"what": "the shape cover does not build under option set %s: %s" % (wirerun.opt_label(o), getattr(r, "stage", "?")), "detail": getattr(r, "detail", str(r))[-1500:]})
    run.notes["cover_record_types"] = len(s.defs)
    # (b) random accepted schemas, one package each
    rng = SplitMix64(seed).fork("C12")
    asts = front.gen_asts(rng, 400 if tier == "thorough" else 90, flags_enums=False, imports=False)
    d = os.path.join(WORK, "c12-%d" % os.getpid())
    shutil.rmtree(d, ignore_errors=True)
    os.makedirs(d)
    try:
        cases = []
        for i, items in enumerate(asts):
            seen = set()
            for it in items:          # opcodes must be unique for Generate to accept
                if it.get("opcode") is not None and it["opcode"] in seen:
                    it["opcode"] = None
                seen.add(it.get("opcode"))
            txt = frontgen.render(items, frontgen.Layout(canonical=True))
            bop = os.path.join(d, "s%d.bop" % i)
            open(bop, "w").write(txt)
            for o in opts:
                out = os.path.join(d, "s%d_o%d.go" % (i, o))
                rc, so, se = sh([bgen, bop, out, "pkg", str(o)], timeout=60)
                if rc == 0:
                    cases.append((items, txt, o, out))
                elif rc == 5:
                    found = True
                    run.violation({"what": "the generator panics on an accepted schema", "schema": txt, "option_set": wirerun.opt_label(o), "detail": se[-600:]})
        # go/types' source importer resolves github.com/200sc/bebop through the module in /verif/go: run from there
        lines = []
        if cases:
            inp = "\n".join(c[3] for c in cases) + "\n"
            rc, so, se = sh([tc], cwd=os.path.join(VERIF, "go"), stdin=inp, timeout=1500)
            lines = so.split("\n")[:-1]
    finally:
        shutil.rmtree(d, ignore_errors=True)
    tally = {"ok": 0, "err": 0}
    for (items, txt, o, out), line in zip(cases, lines):
        n += 1
        run.nontrivial((txt, o))
        if line == "ok":
            tally["ok"] += 1
            continue
        tally["err"] += 1
        if nested_in_message(items) and run.known(*KEY_NESTED):
            continue
        found = True
        if len(run.violations) < 4:
            run.violation({"what": "generated code does not type-check: " + line[:300], "schema": txt, "option_set": wirerun.opt_label(o)})
    if len(lines) != len(cases):
        found = True
        run.violation({"what": "the type-check harness stopped early (%d of %d)" % (len(lines), len(cases))}, no_input=True)
    run.count("evaluations", n)
    run.notes["typecheck"] = tally
    run.sample({"schema": cases[0][1][:300], "option_set": wirerun.opt_label(cases[0][2]), "result": lines[0] if lines else "?"} if cases else {})
    run.finish(level="other")
