# C03: generated codecs speak the Bebop wire format, judged by the reference encoding of the Coq model (spec enc).
from vcommon import *
import wire, wiregen, wirerun


def check(tier, seed, replay=None):
    run = Run("C03", tier, seed)
    run.cov["rule"] = ("encode direction: bytes of MarshalBebop / MarshalBebopTo / EncodeBebop vs the reference encoding [enc] of the normalised value "
                       "(byte equality when no map has more than one entry, else the reference decoder must read the bytes back to the value); "
                       "decode direction: reference encodings with map entries reversed / rotated / swapped, at any depth, fed to UnmarshalBebop and DecodeBebop")
    run.cov["trusted_base"] = wire.WIRE_TRUSTED + ["the reference encoding enc (coq/wire/Wire.v) as the statement of the Bebop wire format"]
    broken = None
    try:
        wire.maybe_proof(run, "props/C03.v", ["C03", "C03_prims"])
    except BrokenTie as e:
        broken = e
    found = False
    try:
        s, shapes, cases, data = wire.v_batch(tier, seed)
    except BrokenTie as e:
        run.violation({"what": "the wire harness no longer builds against /repo", "detail": str(e)}, no_input=True)
        run.finish()
    wire.gen_failure_violation(run, data["fails"], "the generator fails or emits code that does not build for the shape cover")
    wire.summarize_cases(run, cases)
    n = 0
    multimap_checks = []
    for o, i, d, tags, v, G, Mo in wire.iter_v(data, cases):
        n += 1
        bad = None
        ref = Mo.get("enc")
        if ref in (None, "none"):
            bad = "the reference encoder rejects the normalised value (harness value generator out of the model's domain): " + Mo["_raw"][:200]
        elif "m" not in G:
            bad = "an encoder failed: " + G["_raw"][:300]
        elif G.get("mm") == "0":
            for k in ("m", "t", "e"):
                if G.get(k) != ref:
                    a, b_ = G.get(k, ""), ref
                    off = next((j // 2 for j in range(0, min(len(a), len(b_)), 2) if a[j:j + 2] != b_[j:j + 2]), min(len(a), len(b_)) // 2)
                    bad = "%s differs from the reference encoding at byte %d: impl=%s ref=%s" % ({"m": "MarshalBebop", "t": "MarshalBebopTo", "e": "EncodeBebop"}[k], off, a[:160], b_[:160])
                    break
        else:
            if wire.hexlen(G["m"]) != wire.hexlen(ref):
                bad = "length %d differs from the reference length %d" % (wire.hexlen(G["m"]), wire.hexlen(ref))
            elif o == 1:
                multimap_checks.append((d, v, G["m"], G["e"]))
        if bad:
            found = True
            if len(run.violations) < 3:
                run.violation({"what": bad, "option_set": wirerun.opt_label(o), "type": d.name, "context": tags,
                               "schema_def": s.def_bop(d) if not d.inline else d.name, "value": v})
        if n % 1019 == 0:
            run.sample({"type": d.name, "value": v[:160], "reference_encoding": (ref or "")[:100], "impl": G.get("m", "")[:100]})
    sp = wirerun.write_model_schema(s, "c03")
    # multi-entry maps: the reference DECODER (model dec3, proved inverse of enc) must read the implementation's bytes back to the value
    ops = []
    for d, v, m, e in multimap_checks:
        ops.append("DEC %d 1 %s" % (d.id, m))
        ops.append("DEC %d 1 %s" % (d.id, e))
    res = wirerun.run_model(sp, ops)
    for k, (d, v, m, e) in enumerate(multimap_checks):
        want = wiregen.strip_deprecated(d, wiregen.canon(v))
        for j in (0, 1):
            n += 1
            line = res[2 * k + j]
            ok = line.startswith("ok ") and wiregen.canon(line[3:].split(" | ")[0]) == want
            if not ok:
                found = True
                if len(run.violations) < 4:
                    run.violation({"what": "bytes with several map entries are not a conformant encoding of the value (reference decoder disagrees)", "type": d.name, "value": v,
                                   "bytes": [m, e][j][:300], "reference_decoder": line[:300]})
    # decode direction: conformant encodings in other map orders
    perm_cases = []
    for d, tags, v in cases:
        t = wiregen.parse_value(v.split(), 0, True)[0]
        if wiregen.has_multimap(wiregen.canon(v)):
            for mode in (0, 1, 2):
                pv = wiregen.permute_maps(t, mode)
                pv = wiregen.strip_deprecated(d, pv)
                perm_cases.append((d, v, wiregen.unparse(d, pv)))
    if tier != "thorough":
        perm_cases = perm_cases[::3] + perm_cases[1::7]
    encs = wirerun.run_model(sp, ["ENC %d %s" % (d.id, pv) for d, v, pv in perm_cases])
    os.remove(sp)
    ops = []
    for (d, v, pv), line in zip(perm_cases, encs):
        h = wirerun.parse_kv(line).get("enc", "none")
        ops.append("DEC %s 1 %s" % (d.name, h))
        ops.append("SDEC %s 1,2,3,1,1,5 %s" % (d.name, h))
    if "1" in data["go"] and ops:
        b = wirerun.build_package(s, 1, "cover")
        res = wirerun.run_go(b, ops)
        for k, (d, v, pv) in enumerate(perm_cases):
            want = wiregen.strip_deprecated(d, wiregen.canon(v))
            for j in (0, 1):
                n += 1
                line = res[2 * k + j]
                ok = line.startswith("ok ")
                if ok:
                    try:
                        ok = wiregen.canon(line[3:].split(" | ")[0]) == want
                    except Exception:
                        ok = False
                if not ok:
                    found = True
                    if len(run.violations) < 5:
                        run.violation({"what": "%s does not accept a conformant encoding with map entries in another order" % ["UnmarshalBebop", "DecodeBebop"][j],
                                       "type": d.name, "value_in_wire_order": pv, "op": ops[2 * k + j][:400], "result": line[:300]})
        run.notes["permuted_map_encodings"] = len(perm_cases)
    run.count("evaluations", n)
    if broken:
        wire.finish_broken(run, "C03", broken, found)
    run.finish()
