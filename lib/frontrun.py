# Running the two sides of the front-end correspondence: extracted model (ocaml/front_driver.ml) and /repo (go/cmd/fexec).
import hashlib, os
from vcommon import *

FRONT_TRUSTED = TRUSTED_BASE_COMMON + [
    "hand-written executable models of the tokenizer (over a model of bufio.Reader), parser, flag-expression evaluator, formatter and validator "
    "(coq/front/*.v): modelled, not verified; tied to /repo by running both on the same inputs",
    "translator T6 (go/cmd/t6): token.go + tokenize.go -> coq/gen/TokTable.v (kind numbers, keywords, token tree, skipped bytes), against which front/TokTie.v checks the tokenizer model's tables",
    "the add-only verif hook VerifNextDump (verif_hooks.go, build tag verif) for the token stream; everything else goes through ReadFile / Format / Validate",
    "ASCII inputs (Unicode letter classes are outside the model); strconv.ParseInt / ParseUint / Unquote as documented",
]


def model_bin():
    return build_ocaml("frontmodel", "extract/ExtractFront.v", "frontmodel", "front_driver.ml", "front")


def repo_front_hash():
    h = hashlib.sha256()
    for fn in sorted(os.listdir(REPO)):
        if fn.endswith(".go") and not fn.endswith("_test.go"):
            h.update(open(os.path.join(REPO, fn), "rb").read())
    for root, _, files in os.walk(os.path.join(REPO, "internal")):
        for fn in sorted(files):
            if fn.endswith(".go") and not fn.endswith("_test.go"):
                h.update(open(os.path.join(root, fn), "rb").read())
    h.update(open(os.path.join(VERIF, "go", "cmd", "fexec", "main.go"), "rb").read())
    return h.hexdigest()[:16]


def fexec_bin():
    out = os.path.join(BIN, "fexec-%s" % repo_front_hash())
    if not os.path.exists(out):
        with Lock("fexec"):
            if not os.path.exists(out):
                go_build(os.path.join(VERIF, "go", "cmd", "fexec"), out, tags="verif")
    return out


def norm(line):
    line = line.strip()
    while line.endswith(";"):
        line = line[:-1].rstrip()
    return line


def run_model(ops, timeout=1800):
    return [norm(x) for x in run_lines([model_bin()], ops, timeout=timeout)]


def run_go(ops, timeout=1800):
    return [norm(x) for x in run_lines("ulimit -v 8000000; exec %s" % fexec_bin(), ops, timeout=timeout)]


def hexs(b):
    if isinstance(b, str):
        b = b.encode()
    return b.hex() or "-"
