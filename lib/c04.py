# C04: messages stay readable across schema versions, wherever they are nested (UnmarshalBebop and DecodeBebop).
from vcommon import *
import wire, wiregen, wirerun
from wiregen import P, A, M

KEY = "C04/unmarshal/nested-evolved-message-advance-by-recomputed-size"


def build_pair():
    """(v1 schema, v2 schema, [(def name, context)]): same names, v2 extends messages with fresh higher indices and sends fields v1 marks deprecated"""
    out = []
    for ver in (1, 2):
        s = wiregen.Schema()
        new = ver == 2
        evs = {}
        # kinds of evolution
        evs["EvA"] = s.message("EvA", [(1, P("int32"), False), (2, P("string"), False)] + ([(3, P("int64"), False)] if new else []))
        evs["EvB"] = s.message("EvB", [(1, P("uint16"), False), (4, P("bool"), False)] + ([(5, P("string"), False), (6, A(P("int32")), False), (9, M("string", P("uint8")), False)] if new else []))
        evs["EvC"] = s.message("EvC", [(1, P("int32"), False), (2, P("string"), not new), (3, P("guid"), False)])                 # v1 deprecates 2, the peer still sends it
        evs["EvD"] = s.message("EvD", [(1, P("date"), False), (2, P("float64"), not new)] + ([(7, P("string"), False), (200, P("uint32"), False)] if new else []))
        inner = s.message("EvIn", [(1, P("int32"), False)] + ([(2, P("string"), False)] if new else []))
        evs["EvE"] = s.message("EvE", [(1, inner.R(), False), (2, P("int32"), False)] + ([(3, A(inner.R()), False)] if new else []))   # evolved inside evolved
        ctx = []
        for name, ev in evs.items():
            ctx.append((ev, "top"))
            ctx.append((s.struct("St" + name, [ev.R(), P("int32")]), "struct-field"))
            ctx.append((s.struct("Ar" + name, [A(ev.R()), P("int32")]), "array-element"))
            ctx.append((s.struct("Mp" + name, [M("string", ev.R()), P("int32")]), "map-value"))
            ctx.append((s.message("Mg" + name, [(1, ev.R(), False), (2, P("int32"), False)]), "message-field"))
            bm = s.message("Ub" + name, [(1, P("int32"), False), (2, ev.R(), False), (3, P("string"), False)] + ([(4, P("int32"), False)] if new else []))
            un = s.union("Un" + name, [(1, bm), (2, s.struct("Us" + name, [ev.R(), P("uint8")]))])
            ctx.append((un, "union-branch"))
            ctx.append((s.struct("Su" + name, [un.R(), P("int32")]), "struct-of-union"))
            ctx.append((s.struct("Aa" + name, [A(A(ev.R())), P("int32")]), "nested-array-element"))
        out.append((s, ctx))
    (s1, c1), (s2, c2) = out
    return s1, s2, [(a[0], b[0], a[1]) for a, b in zip(c1, c2)]


def restrict(d1, d2, tree):
    """the v2 value tree seen through v1: message fields v1 does not know are dropped"""
    def go_t(t1, t2, v):
        if t1[0] == "a":
            return ("A", tuple(go_t(t1[1], t2[1], x) for x in v[1]))
        if t1[0] == "m":
            return ("P", tuple((k, go_t(t1[2], t2[2], x)) for k, x in v[1]))
        if t1[0] == "r":
            return go_d(t1[1], t2[1], v)
        return v

    def go_d(d1, d2, v):
        if d1.kind == "struct":
            return ("T", tuple(go_t(f1[1], f2[1], x) for f1, f2, x in zip(d1.fields, d2.fields, v[1])))
        if d1.kind == "message":
            by2 = {f[0]: (f, x) for f, x in zip(d2.fields, v[1])}
            res = []
            for f1 in d1.fields:
                f2, x = by2[f1[0]]
                res.append(None if x is None else ("J", go_t(f1[2], f2[2], x[1])))
            return ("G", tuple(res))
        for (disc, b1), (_, b2) in zip(d1.fields, d2.fields):
            if str(disc) == v[1]:
                return ("U", v[1], go_d(b1, b2, v[2]))
        return v
    return go_d(d1, d2, tree)


def check(tier, seed, replay=None):
    run = Run("C04", tier, seed)
    run.cov["rule"] = ("schema pairs (v1, v2) with the same names: v2 adds message fields with fresh higher indices (1-3 fields, scalars / strings / arrays / maps / an evolved "
                       "nested message) and/or sends a field v1 marks deprecated; the evolved message sits at top level, in a struct field, array element, nested array, map value, "
                       "message field, union branch, struct holding the union - always followed by a sentinel field; values of v2 are encoded by v2's generated code and decoded by "
                       "v1's UnmarshalBebop and DecodeBebop (whole buffer / small-chunk readers, 3 sentinel bytes after the record); expected: the v2 value restricted to v1's fields, "
                       "no error, exact consumption; the extracted model under schema v1 runs on the same bytes; distinct = distinct (type, value)")
    run.cov["trusted_base"] = wire.WIRE_TRUSTED
    broken = None
    try:
        wire.maybe_proof(run, "props/C04.v", ["C04_stream"])
    except BrokenTie as e:
        broken = e
    found = False
    s1, s2, ctx = build_pair()
    try:
        b1 = wirerun.build_package(s1, 1, "evo1")
        b2 = wirerun.build_package(s2, 1, "evo2")
    except wirerun.GenFailure as e:
        run.violation({"what": "the generator fails on an evolution-pair schema: " + e.stage, "detail": e.detail[-1500:]})
        run.finish()
    except BrokenTie as e:
        run.violation({"what": "the wire harness no longer builds against /repo", "detail": str(e)}, no_input=True)
        run.finish()
    rng = SplitMix64(seed).fork("C04")
    nrand = 40 if tier == "thorough" else 8
    cases = []
    for d1, d2, c in ctx:
        for v in wiregen.values_for(d2, rng, nrand):
            cases.append((d1, d2, c, v))
    enc = wirerun.run_go(b2, ["V %s %s" % (d2.name, v) for d1, d2, c, v in cases])
    sp1 = wirerun.write_model_schema(s1, "c04")
    ops_go, ops_mo, meta = [], [], []
    for (d1, d2, c, v), line in zip(cases, enc):
        G = wirerun.parse_kv(line)
        if "m" not in G:
            run.violation({"what": "v2 encoder failed", "type": d2.name, "value": v, "result": line[:300]})
            found = True
            continue
        h = G["m"]
        L = wire.hexlen(h)
        want = restrict(d1, d2, wiregen.strip_deprecated(d2, wiregen.canon(v)))
        ops_go.append("DEC %s 1 %s" % (d1.name, h))
        ops_mo.append("DEC %d 1 %s" % (d1.id, h))
        meta.append((d1, d2, c, v, h, want, "UnmarshalBebop", L))
        for sch in ("-", ",".join(str(1 + (k * 7) % 3) for k in range(L + 8)), ",".join(str(1 + rng.below(6)) for _ in range(L + 8))):
            ops_go.append("SDEC %s %s %seeeeee" % (d1.name, sch, h if h != "-" else ""))
            ops_mo.append("SDEC %d %s %seeeeee" % (d1.id, sch, h if h != "-" else ""))
            meta.append((d1, d2, c, v, h, want, "DecodeBebop", L))
    gl = wirerun.run_go(b1, ops_go)
    ml = wirerun.run_model(sp1, ops_mo)
    os.remove(sp1)
    n = 0
    per_ctx = {}
    for (d1, d2, c, v, h, want, which, L), og, g, m in zip(meta, ops_go, gl, ml):
        n += 1
        run.nontrivial((d1.name, v, og.split()[2] if which == "DecodeBebop" else ""))
        per_ctx[c] = per_ctx.get(c, 0) + 1
        ok = g.startswith("ok ")
        if ok:
            body = g[3:].split(" | ")[0]
            try:
                ok = wiregen.canon(body) == want
            except Exception:
                ok = False
            if ok and which == "DecodeBebop" and ("consumed=%d " % L) not in g + " ":
                ok = False
        if not ok:
            # the model under v1 has the same advance rule: the failure is the known one iff the model, too, fails to deliver the expected value here
            model_ok = m.startswith("ok ")
            if model_ok:
                try:
                    model_ok = wiregen.canon(m[3:].split(" | ")[0]) == want
                except Exception:
                    model_ok = False
            same_as_model = not model_ok
            what = ("%s of v2 bytes under v1 (%s): got %s" % (which, c, g[:160]))
            if which == "UnmarshalBebop" and same_as_model and run.known(KEY, "the byte-slice decoder advances past a nested record by the recomputed Size() of what it understood, so after an evolved message (new fields, or a field the reader marks deprecated) nested in a struct / array / map / message / union the following fields are read from the wrong offset"):
                continue
            found = True
            if len(run.violations) < 4:
                run.violation({"what": what, "context": c, "v1": s1.def_bop(d1) if not d1.inline else d1.name, "v2": s2.def_bop(d2) if not d2.inline else d2.name,
                               "v2_value": v, "bytes": h[:400], "expected": wiregen.unparse(d1, want)[:300], "impl": g[:300], "model_under_v1": m[:300], "op": og[:600]})
        if n % 311 == 0:
            run.sample({"context": c, "op": og[:140], "impl": g[:100]})
    run.notes["cases_by_context"] = per_ctx
    run.count("evaluations", n)
    if broken:
        wire.finish_broken(run, "C04", broken, found)
    run.finish()
