# C07: decoding arbitrary bytes never panics or runs away (UnmarshalBebop and DecodeBebop; MustUnmarshalBebop is exempt).
from vcommon import *
import wire, wiregen, wirerun
from c06 import encodings, classify, alloc_of, ALLOC_SLACK, PER_BYTE

HOSTILE4 = ["ffffffff", "ffffff7f", "00000080", "01000000", "00000000", "00000100", "ff000000", "10270000"]
HOSTILE1 = ["00", "01", "7f", "80", "ff", "05", "09"]


def corruptions(h, rng, per_value):
    """structure-aware-ish: every byte offset gets hostile single bytes, every offset a hostile 4-byte window; plus splices and truncation + garbage"""
    L = len(h) // 2
    out = []
    for k in range(L):
        out.append(h[:2 * k] + rng.choice(HOSTILE1) + h[2 * k + 2:])
        if k + 4 <= L:
            out.append(h[:2 * k] + rng.choice(HOSTILE4) + h[2 * k + 8:])
    for _ in range(4):
        if L > 2:
            a, b = sorted((rng.below(L), rng.below(L)))
            out.append(h[:2 * a] + h[2 * b:])                     # delete a slice
            out.append(h[:2 * a] + rng.bytes(1 + rng.below(6)).hex() + h[2 * a:])   # insert garbage
            out.append(h[:2 * a] + rng.bytes(rng.below(12)).hex())  # truncate + garbage
    if len(out) > per_value:
        idx = sorted({rng.below(len(out)) for _ in range(per_value)})
        out = [out[i] for i in idx]
    return [x or "-" for x in out]


def check(tier, seed, replay=None):
    run = Run("C07", tier, seed)
    run.cov["rule"] = ("byte strings = corruptions of valid encodings of cover values (hostile bytes at every offset: counts, indices, discriminators, length prefixes; "
                       "slices deleted, garbage inserted, truncation + garbage) and unstructured random strings, decoded by UnmarshalBebop and DecodeBebop of the type; "
                       "the extracted model classifies each input first (ok / err / panic / excess); inputs it classifies `excess` (a count out of proportion to the input reaches "
                       "make() or a loop before any check) are not executed in the main batch, a fixed handful is confirmed in a memory-capped child; "
                       "required on the rest: returns normally, no panic, allocation <= 16 KiB x input + 2 MiB; plus counts of 65537 .. 2^20 in front of 0 / 5 / 70000 zero bytes "
                       "(out of proportion but affordable): the decoders must return - no hang (20 s watchdog per operation), no panic; distinct = distinct (type, bytes)")
    run.cov["trusted_base"] = wire.WIRE_TRUSTED
    broken = None
    try:
        wire.maybe_proof(run, "props/C07.v", ["C07_partial"])
    except BrokenTie as e:
        broken = e
    found = False
    try:
        s, shapes, cases, data = wire.v_batch(tier, seed)
    except BrokenTie as e:
        run.violation({"what": "the wire harness no longer builds against /repo", "detail": str(e)}, no_input=True)
        run.finish()
    wire.gen_failure_violation(run, data["fails"], "the generator fails or emits code that does not build for the shape cover")
    if "1" not in data["go"]:
        run.finish()
    rng = SplitMix64(seed).fork("C07")
    encs = encodings(data, cases)
    step = 2 if tier == "thorough" else 7
    encs = [e for k, e in enumerate(encs) if k % step == 1 and 0 < wire.hexlen(e[3]) <= 300]
    per_value = 400 if tier == "thorough" else 90
    ops_go, ops_mo, meta = [], [], []
    for d, tags, v, h in encs:
        for c in corruptions(h, rng, per_value):
            which = len(ops_go) % 2
            if which == 0:
                ops_go.append("DEC %s 1 %s" % (d.name, c))
                ops_mo.append("DEC %d 1 %s" % (d.id, c))
            else:
                sch = ["-", "1,2,1,3,1,1,4", "7,7,7,7"][len(ops_go) % 3]
                ops_go.append("SDEC %s %s %s" % (d.name, sch, c))
                ops_mo.append("SDEC %d %s %s" % (d.id, sch, c))
            meta.append((d, "corruption"))
    alld = [d for d, _ in shapes]
    for _ in range(20000 if tier == "thorough" else 3000):
        d = alld[rng.below(len(alld))]
        c = rng.bytes(rng.below(40)).hex() or "-"
        if rng.below(2):
            ops_go.append("DEC %s 1 %s" % (d.name, c))
            ops_mo.append("DEC %d 1 %s" % (d.id, c))
        else:
            ops_go.append("SDEC %s - %s" % (d.name, c))
            ops_mo.append("SDEC %d - %s" % (d.id, c))
        meta.append((d, "random"))
    sp = wirerun.write_model_schema(s, "c07")
    ml = wirerun.run_model(sp, ops_mo)
    os.remove(sp)
    b = wirerun.build_package(s, 1, "cover")
    run_idx = [i for i, m in enumerate(ml) if classify(m) != "excess"]
    exc_idx = [i for i, m in enumerate(ml) if classify(m) == "excess"]
    gl = wirerun.run_go(b, [ops_go[i] for i in run_idx], measure=True)
    n = 0
    tally = {"model": {}, "impl": {}}
    for i, g in zip(run_idx, gl):
        n += 1
        d, kind = meta[i]
        m = ml[i]
        run.nontrivial(ops_go[i])
        cg, cm = classify(g), classify(m)
        if cm == "ok" and "err=1" in m:
            cm = "err"
        tally["model"][cm] = tally["model"].get(cm, 0) + 1
        tally["impl"][cg] = tally["impl"].get(cg, 0) + 1
        bad = None
        if cg not in ("ok", "err"):
            bad = "%s: %s" % (ops_go[i].split()[0], g[:200])
        elif alloc_of(g) > PER_BYTE * max(1, wire.hexlen(ops_go[i].split()[3] if ops_go[i].startswith("DEC") else ops_go[i].split()[3])) + ALLOC_SLACK:
            bad = "allocated %d bytes for a %d-byte input" % (alloc_of(g), wire.hexlen(ops_go[i].split()[3]))
        elif cg != cm:
            # C07's observable is the safety class only: an ok / err / predicted-panic disagreement on garbage is a modelling gap
            # (e.g. NaN map keys, which the model's association lists do not mirror), not a violation
            tally.setdefault("class_disagreements_ok_vs_err", 0)
            tally["class_disagreements_ok_vs_err"] += 1
        if bad and cg == "crash" and ("out of memory" in g or "makeslice" in g or "makemap" in g) and "map[float" in s.def_bop(d):
            # a NaN key: Go re-reads the map entry it has just stored to compute its advance and finds nothing (NaN != NaN), so the byte decoder goes on
            # misaligned and the next "count" it meets is garbage - the count-before-check finding, reached through a gap of the model (association
            # lists keep NaN keys apart), which therefore cannot predict it.  Narrow: fatal allocation + a float-keyed map in the type.
            nan_hits = run.notes.get("nan_key_misalignment_oom", 0) + 1
            run.notes["nan_key_misalignment_oom"] = nan_hits
            if run.known("C07/count-reaches-make-or-loop-before-any-check", "a count read from the input reaches make() before any check (here after a NaN map key misaligned the byte decoder)"):
                bad = None
        if bad:
            found = True
            if len(run.violations) < 4:
                run.violation({"what": bad, "type": d.name, "schema_def": s.def_bop(d) if not d.inline else d.name, "op": ops_go[i][:900], "impl": g[:300], "model": m[:300]})
        if n % 9001 == 0:
            run.sample({"op": ops_go[i][:160], "impl": g[:80], "model": m[:80]})
    # inputs the model classifies as excess: known finding (count-before-check); confirm a handful under a memory cap
    tally["model"]["excess"] = len(exc_idx)
    if exc_idx:
        sample = [exc_idx[k] for k in range(0, len(exc_idx), max(1, len(exc_idx) // 4))][:4]
        res = wirerun.run_go(b, [ops_go[i] for i in sample], measure=True, vmem_kb=3000000, timeout=120)
        confirmed = 0
        for i, g in zip(sample, res):
            n += 1
            L = wire.hexlen(ops_go[i].split()[3])
            if classify(g) in ("panic", "crash") or alloc_of(g) > PER_BYTE * max(1, L) + ALLOC_SLACK:
                confirmed += 1
            run.sample({"excess_op": ops_go[i][:200], "impl_under_3GB_cap": g[:160], "model": ml[i][:60]}, limit=9)
        key = "C07/count-reaches-make-or-loop-before-any-check"
        what = "a 32-bit count read from the input sizes make([]T, n) / make(map, n) / a string, or bounds a loop, before any length check: a few bytes make the decoder allocate or iterate out of all proportion (confirmed %d of %d sampled under a 3 GB cap; %d inputs classified by the model)" % (confirmed, len(sample), len(exc_idx))
        if not run.known(key, what):
            found = True
            run.violation({"what": what, "op": ops_go[sample[0]][:600], "impl": res[0][:300], "model": ml[sample[0]]})
        else:
            run.known_hits[key][1] = len(exc_idx)
    # counts that are out of proportion but affordable (<= 2^20 elements): the allocation is the known finding, but the decoder must still RETURN - a count
    # beyond the data must not make it spin or panic.  Struct shapes whose first field is a string / array / map: the 4-byte count leads the encoding.
    mod_ops, mod_meta = [], []
    for d, tags in shapes:
        if tags[0] != "struct" or tags[1] not in ("plain", "arr", "mapS", "mapU", "arr2", "maparr"):
            continue
        t0 = d.fields[0][1]
        if tags[1] == "plain" and t0 != ("p", "string"):
            continue
        leaf = t0
        while leaf[0] in "am":
            leaf = leaf[1] if leaf[0] == "a" else leaf[2]
        if not (leaf[0] == "p" and leaf[1] in ("string", "byte", "int32", "guid", "bool") or leaf[0] == "r" and leaf[1].name in ("SLeaf", "MLeaf", "SEmpty")):
            continue
        for cnt in (65537, 1 << 17, 1 << 20):
            for dl in (0, 5, 70000):
                body = (cnt.to_bytes(4, "little") + bytes(dl)).hex()        # zero data: no further hostile count inside
                mod_ops.append("DEC %s 1 %s" % (d.name, body))
                mod_meta.append((d, cnt, dl))
                for sch in ("-", "4096,1,70000,3"):
                    mod_ops.append("SDEC %s %s %s" % (d.name, sch, body))
                    mod_meta.append((d, cnt, dl))
    res = wirerun.run_go(b, mod_ops, measure=True, vmem_kb=4000000, timeout=900)
    for (d, cnt, dl), op, g in zip(mod_meta, mod_ops, res):
        n += 1
        run.nontrivial(op[:200])
        if classify(g) not in ("ok", "err", "crash"):          # a fatal out-of-memory is the allocation finding; a hang or a panic is not
            found = True
            if len(run.violations) < 4:
                run.violation({"what": "a count of %d followed by %d bytes: %s does not return normally: %s" % (cnt, dl, op.split()[0], g[:200]), "type": d.name,
                               "schema_def": s.def_bop(d) if not d.inline else d.name, "op": op[:300]})
    run.notes["moderate_count_cases"] = len(mod_ops)
    run.notes["outcomes"] = tally
    run.count("evaluations", n)
    if broken:
        wire.finish_broken(run, "C07", broken, found)
    run.finish()
