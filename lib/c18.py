# C18: imports resolve relative to the importing file, terminate on every graph, cycles are reported exactly, combined mode
# means the same as inlining.
import os, shutil, itertools
from vcommon import *
import wirerun

DIRS = ["", "a", "a/b", "c", "a/b/d"]


def sys_model():
    return build_ocaml("sysmodel", "extract/ExtractSys.v", "sysmodel", "sys_driver.ml", "sys")


def gexec_bin(race=False):
    key = wirerun.repo_hash() + hashlib.sha256(open(os.path.join(VERIF, "go", "cmd", "gexec", "main.go"), "rb").read()).hexdigest()[:8]
    out = os.path.join(BIN, "gexec-%s%s" % (key, "-race" if race else ""))
    if not os.path.exists(out):
        with Lock("gexec"):
            if not os.path.exists(out):
                go_build(os.path.join(VERIF, "go", "cmd", "gexec"), out, race=race)
    return out


def graphs(tier, rng):
    """(n, edges as adjacency lists with possible 'x' for a missing file, pkgs)"""
    out = []
    # all digraphs on <= 3 nodes (self loops included)
    for n in (1, 2, 3):
        pairs = [(i, j) for i in range(n) for j in range(n)]
        for mask in range(1 << len(pairs)):
            if n == 3 and tier != "thorough" and mask % 3 != 0:
                continue
            adj = [[] for _ in range(n)]
            for b, (i, j) in enumerate(pairs):
                if mask >> b & 1:
                    adj[i].append(j)
            out.append((n, adj))
    # diamonds, ladders, chains with cycles below the root, random larger
    out.append((4, [[1, 2], [3], [3], []]))
    out.append((4, [[1], [2], [3], [1]]))               # cycle not through the root
    out.append((3, [[1], [1], []]))                     # self import below the root
    out.append((5, [[1, 2], [3], [3], [4], []]))
    out.append((7, [[1, 2], [3, 4], [3, 4], [5, 6], [5, 6], [], []]))    # ladder: exponential for a DFS without memo
    # a file imported by MANY others (in-degree 2..5), directly from the root too or not: acyclic, must never be reported as a cycle
    for k in (2, 3, 4, 5):
        n = k + 2
        out.append((n, [list(range(1, n))] + [[n - 1] for _ in range(k)] + [[]]))          # root -> x1..xk, common; xi -> common
        out.append((n, [list(range(1, n - 1))] + [[n - 1] for _ in range(k)] + [[]]))      # root -> x1..xk; xi -> common
    # layered DAGs, every file importing every file of the next layer; dense random DAGs (edges only forward)
    out.append((7, [[1, 2, 3], [4, 5, 6], [4, 5, 6], [4, 5, 6], [], [], []]))
    out.append((7, [[1, 2], [3, 4], [3, 4], [5, 6], [5, 6], [6], []]))
    for _ in range(30 if tier == "thorough" else 8):
        n = 4 + rng.below(4)
        out.append((n, [[j for j in range(i + 1, n) if rng.below(2)] for i in range(n)]))
    out.append((2, [[1, "x"], []]))
    out.append((3, [[1], [2, "x"], []]))
    for _ in range(60 if tier == "thorough" else 15):
        n = 4 + rng.below(5)
        adj = [[j for j in range(n) if j != i and rng.below(4) == 0] for i in range(n)]
        out.append((n, adj))
    return out


def layout_files(d, n, adj, pkgs, placement):
    """write f0..fn-1 into directories; imports are written RELATIVE TO THE IMPORTING FILE; decoy files of the same name live in
    the root's directory so that resolving against the wrong base finds a different (wrong) file or nothing"""
    paths = []
    for i in range(n):
        sub = DIRS[placement[i] % len(DIRS)]
        os.makedirs(os.path.join(d, sub), exist_ok=True)
        paths.append(os.path.join(d, sub, "f%d.bop" % i))
    for i in range(n):
        lines = []
        for j in adj[i]:
            target = os.path.join(d, "nowhere", "missing.bop") if j == "x" else paths[j]
            rel = os.path.relpath(target, os.path.dirname(paths[i]))
            lines.append('import "%s"' % rel)
        if pkgs[i] is not None:
            lines.append('const string go_package = "example.com/p%d"' % pkgs[i] + ";")
        lines.append("struct T%d { int32 v; }" % i)
        lines.append("message G%d { 1 -> T%d t; }" % (i, i))
        open(paths[i], "w").write("\n".join(lines) + "\n")
    return paths


def check(tier, seed, replay=None):
    run = Run("C18", tier, seed)
    run.cov["rule"] = ("import graphs: ALL directed graphs on <= 3 files (self imports, root re-imported; quick: every third 3-node graph) + diamonds, ladders, cycles below the root, "
                       "missing files, files imported by 2-5 others, layered and dense random DAGs, random graphs on 4-8 files; files placed in nested directories with imports written relative to the importing file; go_package assignments "
                       "(distinct, shared between files, absent); both import modes; through the public File.Generate on real files. Observables: ok / cycle error / other error, the set of "
                       "generated type names - compared with the extracted worklist + cycle-search model and with the direct reading of the property (cycle error iff the package graph "
                       "reachable from the root is cyclic; combined mode defines exactly the types of the transitive closure, once each); distinct = distinct (graph, placement, packages, mode)")
    run.cov["trusted_base"] = TRUSTED_BASE_COMMON + [
        "hand-written models of the import worklist (coq/sys/Worklist.v) and of FindCycle (coq/sys/Dfs.v): modelled, not verified; paths are resolved by the harness "
        "according to the property (relative to the importing file) before the model sees them",
    ]
    broken = None
    try:
        proof_step(run, "props/C18.v", ["C18_partial"])
        model = sys_model()
    except BrokenTie as e:
        broken = e
        model = None
    try:
        gx = gexec_bin()
    except BrokenTie as e:
        run.violation({"what": "the generate harness no longer builds against /repo", "detail": str(e)}, no_input=True)
        run.finish()
    rng = SplitMix64(seed).fork("C18")
    d = os.path.join(WORK, "c18-%d" % os.getpid())
    shutil.rmtree(d, ignore_errors=True)
    cases, gen_ops, mod_ops = [], [], []
    found = False
    try:
        k = 0
        for n, adj in graphs(tier, rng):
            for variant in range(2):
                k += 1
                placement = [0] + [rng.below(len(DIRS)) for _ in range(n - 1)] if variant else [0] * n
                style = rng.below(3)
                pkgs = [i for i in range(n)] if style == 0 else ([i % 2 for i in range(n)] if style == 1 else [i // 2 for i in range(n)])
                for mode in ("separate", "combined"):
                    cd = os.path.join(d, "g%d%s" % (k, mode[0]))
                    # combined mode neither needs nor tolerates several go_package consts (inlining them would define the const twice)
                    paths = layout_files(cd, n, adj, pkgs if mode == "separate" else [None] * n, placement)
                    cases.append((n, adj, pkgs, placement, mode, paths))
                    gen_ops.append("GEN %s %s" % (mode, paths[0]))
                    mod_ops.append("IMP %s %d %s" % (mode, n, " ".join("%d/%s" % (pkgs[i], ",".join(str(j) for j in adj[i]) or "-") for i in range(n))))
        gl = run_lines([gx], gen_ops, timeout=900)
        ml = run_lines([model], mod_ops) if model else ["?"] * len(gen_ops)
    finally:
        shutil.rmtree(d, ignore_errors=True)
    tally = {}
    for (n, adj, pkgs, placement, mode, paths), gop, g, m in zip(cases, gen_ops, gl, ml):
        run.nontrivial((n, str(adj), str(pkgs), str(placement), mode))
        # the property, read directly: reachable closure, missing files, package-graph cyclicity
        reach, order, missing = set(), [], False
        queue = list(adj[0])
        while queue:
            j = queue.pop(0)
            if j == "x":
                missing = True
                break
            if j in reach:
                continue
            reach.add(j)
            order.append(j)
            queue += adj[j]
        pk_edges = set()
        stack = [0]
        seenf = set()
        while stack:
            i = stack.pop()
            if i in seenf:
                continue
            seenf.add(i)
            for j in adj[i]:
                if j != "x":
                    pk_edges.add((pkgs[i], pkgs[j]))
                    stack.append(j)
        def cyclic():
            nodes = {a for a, _ in pk_edges} | {b for _, b in pk_edges}
            succ = {a: [b for x, b in pk_edges if x == a] for a in nodes}
            color = {}
            def dfs(u):
                color[u] = 1
                for v in succ[u]:
                    if color.get(v) == 1 or (v not in color and dfs(v)):
                        return True
                color[u] = 2
                return False
            return any(u not in color and dfs(u) for u in nodes)
        if missing:
            want = "err"
        elif mode == "separate" and cyclic():
            want = "cycle"
        elif mode == "combined" and 0 in reach:
            want = "err"        # the root is in its own import closure: inlining it defines its types twice
        else:
            want = "ok"
        gc = g.split(" ", 1)[0]
        tally["%s/%s" % (mode, gc)] = tally.get("%s/%s" % (mode, gc), 0) + 1
        bad = None
        if gc != want:
            bad = "Generate: %s, the property says %s" % (g[:100], want)
        elif gc == "ok" and mode == "combined":
            names = set(g.split(" ")[1].split(",")) if len(g.split(" ")) > 2 else set()
            exp = set()
            for i in [0] + sorted(reach - {0}):
                exp |= {"T%d" % i, "G%d" % i}
            if names != exp:
                bad = "combined mode defines %s, inlining the transitive imports once gives %s" % (sorted(names), sorted(exp))
        if bad is None and model:
            mc = {"openerr": "err"}.get(m.split(" ", 1)[0], m.split(" ", 1)[0])
            if mc == "ok" and mode == "combined" and "0" in (m.split(" ", 1)[1].split(",") if " " in m else []):
                mc = "err"      # the worklist imported the root itself: Validate then sees every root definition twice
            if mc != gc:
                bad = "implementation (%s) and model (%s) disagree" % (g[:80], m[:80])
        if bad:
            found = True
            if len(run.violations) < 4:
                files = {}
                run.violation({"what": bad, "mode": mode, "files": n, "imports": adj, "go_package_of_file": pkgs, "directory_of_file": [DIRS[p % len(DIRS)] or "." for p in placement],
                               "impl": g[:300], "model": m[:200], "op": gop})
    run.count("evaluations", len(cases))
    run.notes["outcomes"] = tally
    for c, g in list(zip(cases, gl))[:: max(1, len(cases) // 5)][:5]:
        run.sample({"files": c[0], "imports": c[1], "mode": c[4], "result": g[:100]})
    if broken:
        run.broken_tie(broken)
        if not found:
            run.violation({"what": "C18 is no longer shown to hold", "broken_kind": broken.kind, "no_longer_checks": broken.name, "detail": broken.detail[-1500:]}, no_input=True)
    run.finish()
