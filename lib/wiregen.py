# Schema covers and values for the wire properties (C01-C09): systematic cover of the generator's template space
# (leaf type x container nesting x record context) plus boundary / random values, in the syntax shared by the
# extracted model driver (ocaml/wire_driver.ml) and the Go executor (go/exec/zz_exec.go.tmpl).
from vcommon import SplitMix64

PRIMS = ["bool", "byte", "uint8", "uint16", "int16", "uint32", "int32", "uint64", "int64", "float32", "float64", "string", "guid", "date"]
PIDX = {p: i for i, p in enumerate(PRIMS)}
INTW = {"byte": (1, False), "uint8": (1, False), "uint16": (2, False), "int16": (2, True), "uint32": (4, False), "int32": (4, True),
        "uint64": (8, False), "int64": (8, True), "float32": (4, False), "float64": (8, False), "date": (8, True)}
ENUM_BASES = ["uint8", "uint16", "uint32", "uint64", "int16", "int32", "int64", "byte"]


# types: ('p', name) | ('e', enumname, base) | ('r', Def) | ('a', t) | ('m', keyprim, t)
def P(n):
    return ("p", n)


def A(t):
    return ("a", t)


def M(k, t):
    return ("m", k, t)


class Def:
    def __init__(self, schema, kind, name, readonly=False):
        self.kind, self.name, self.readonly = kind, name, readonly
        self.fields = []      # struct: (fname, ty); message: (idx, fname, ty, deprecated); union: (disc, Def)
        self.inline = False   # defined inside a union
        self.id = len(schema.defs)
        schema.defs.append(self)

    def R(self):
        return ("r", self)


class Schema:
    def __init__(self):
        self.defs = []
        self.enums = []   # (name, base)

    def enum(self, name, base):
        self.enums.append((name, base))
        return ("e", name, base)

    def struct(self, name, fields, readonly=False):
        d = Def(self, "struct", name, readonly)
        d.fields = [("f%d" % i, t) for i, t in enumerate(fields)]
        return d

    def message(self, name, fields):
        d = Def(self, "message", name)
        d.fields = [(idx, "g%d" % idx, t, dep) for (idx, t, dep) in fields]
        d.fields.sort(key=lambda f: f[0])
        return d

    def union(self, name, branches):
        d = Def(self, "union", name)
        d.fields = sorted(branches, key=lambda b: b[0])
        for _, bd in d.fields:
            bd.inline = True
        return d

    # ---- rendering
    def ty_bop(self, t):
        if t[0] == "p":
            return t[1]
        if t[0] == "e":
            return t[1]
        if t[0] == "r":
            return t[1].name
        if t[0] == "a":
            return "array[" + self.ty_bop(t[1]) + "]" if t[1][0] in "am" else self.ty_bop(t[1]) + "[]"
        return "map[%s, %s]" % (t[1], self.ty_bop(t[2]))

    def def_bop(self, d):
        if d.kind == "struct":
            body = " ".join("%s %s;" % (self.ty_bop(t), n) for n, t in d.fields)
            return "%sstruct %s { %s }" % ("readonly " if d.readonly else "", d.name, body)
        if d.kind == "message":
            parts = []
            for idx, n, t, dep in d.fields:
                parts.append(('[deprecated("old")]\n    ' if dep else "") + "%d -> %s %s;" % (idx, self.ty_bop(t), n))
            return "message %s {\n    %s\n}" % (d.name, "\n    ".join(parts))
        parts = ["%d -> %s" % (disc, self.def_bop(bd)) for disc, bd in d.fields]
        return "union %s {\n    %s\n}" % (d.name, "\n    ".join(parts))

    def to_bop(self):
        out = []
        for name, base in self.enums:
            vals = "A%s = 1; B%s = 2;" % (name, name)
            out.append("enum %s : %s { %s }" % (name, base, vals))
        for d in self.defs:
            if not d.inline:
                out.append(self.def_bop(d))
        return "\n".join(out) + "\n"

    def ty_model(self, t):
        if t[0] == "p":
            return "p%d" % PIDX[t[1]]
        if t[0] == "e":
            # an enum is its base integer on the wire; the generator's `byte` fast paths are keyed on the type NAME `byte`,
            # so an enum over byte is written element by element like uint8
            return "p%d" % PIDX["uint8" if t[2] == "byte" else t[2]]
        if t[0] == "r":
            return "r%d" % t[1].id
        if t[0] == "a":
            return "a " + self.ty_model(t[1])
        return "m%d %s" % (PIDX[t[1]], self.ty_model(t[2]))

    def to_model(self):
        out = []
        for d in self.defs:
            if d.kind == "struct":
                out.append("S %d %d %s" % (d.id, len(d.fields), " ".join(self.ty_model(t) for _, t in d.fields)))
            elif d.kind == "message":
                out.append("M %d %d %s" % (d.id, len(d.fields), " ".join("%d %d %s" % (idx, 1 if dep else 0, self.ty_model(t)) for idx, _, t, dep in d.fields)))
            else:
                out.append("U %d %d %s" % (d.id, len(d.fields), " ".join("%d %d" % (disc, bd.id) for disc, bd in d.fields)))
        return "\n".join(out) + "\n"

    def go_name(self, d, private):
        n = d.name
        return (n[0].lower() + n[1:]) if private else (n[0].upper() + n[1:])

    def registry_go(self, pkg, private):
        lines = ["package %s" % pkg, "", "var zzRegistry = map[string]func() zzRecord{"]
        for d in self.defs:
            lines.append('\t"%s": func() zzRecord { return &%s{} },' % (d.name, self.go_name(d, private)))
        lines.append("}")
        lines.append("var zzUnionDiscs = map[string][]int{")
        for d in self.defs:
            if d.kind == "union":
                lines.append('\t"%s": {%s},' % (self.go_name(d, private), ", ".join(str(disc) for disc, _ in d.fields)))
        lines.append("}")
        lines.append("var zzMessages = map[string]bool{")
        for d in self.defs:
            if d.kind == "message":
                lines.append('\t"%s": true,' % self.go_name(d, private))
        lines.append("}")
        return "\n".join(lines) + "\n"


# ---------------------------------------------------------------- covers
def base_records(s):
    """the record leaves every cover uses"""
    r = {}
    r["S"] = s.struct("SLeaf", [P("int32"), P("string")])
    r["E0"] = s.struct("SEmpty", [])
    r["RO"] = s.struct("SRo", [P("uint16"), P("string")], readonly=True)
    r["BIG"] = s.struct("SBig", [P("uint64")] * 33)            # 264 bytes on the wire: width-truncation hazards
    r["G"] = s.struct("SGuids", [P("guid")] * 17)               # 272 bytes
    r["M"] = s.message("MLeaf", [(1, P("int32"), False), (2, P("string"), False), (3, P("uint16"), True), (5, P("bool"), False)])
    rm = Def(s, "message", "MRec")
    rm.fields = [(1, "g1", P("int32"), False), (2, "g2", rm.R(), False), (4, "g4", A(rm.R()), False)]
    r["R"] = rm
    ua = s.struct("UBranchS", [P("int32"), P("string")])
    ub = s.message("UBranchM", [(1, P("uint32"), False), (2, P("string"), False)])
    uc = s.struct("UBranchE", [])
    r["U"] = s.union("ULeaf", [(1, ua), (2, ub), (3, uc)])
    lst = Def(s, "union", "UList")
    cons = Def(s, "struct", "UCons")
    cons.fields = [("head", P("uint32")), ("tail", lst.R())]
    nil = s.struct("UNil", [])
    lst.fields = [(1, cons), (2, nil)]
    cons.inline = nil.inline = True
    r["L"] = lst
    return r


def leaves(s, recs):
    out = [P(p) for p in PRIMS]
    out += [s.enum("En%s" % b.capitalize(), b) for b in ENUM_BASES]
    out += [recs[k].R() for k in ("S", "E0", "RO", "BIG", "G", "M", "R", "U", "L")]
    return out


def container_forms(leaf, depth):
    forms = [("plain", leaf), ("arr", A(leaf)), ("mapS", M("string", leaf)), ("mapU", M("uint32", leaf))]
    if depth >= 2:
        forms += [("arr2", A(A(leaf))), ("arrmap", A(M("string", leaf))), ("maparr", M("int16", A(leaf))), ("mapmap", M("guid", M("bool", leaf)))]
    if depth >= 3:
        forms += [("arr3", A(A(A(leaf)))), ("maparrmap", M("uint64", A(M("string", leaf))))]
    return forms


def nested_container(t):
    """a container directly inside a container (as a message field this did not compile before /repo ad2e520)"""
    return t[0] in "am" and (t[1] if t[0] == "a" else t[2])[0] in "am"


def build_cover(depth=2, with_nested_in_messages=True):
    """returns (schema, list of (Def, tags)) -- every leaf x container form placed in each record context"""
    s = Schema()
    recs = base_records(s)
    shapes = []
    k = 0
    all_forms = []
    for leaf in leaves(s, recs):
        for fname, t in container_forms(leaf, depth):
            all_forms.append((fname, t))
    for key in PRIMS:   # every key type
        all_forms.append(("key_" + key, M(key, P("int32"))))
        if key not in ("string",):
            all_forms.append(("keyv_" + key, M(key, P("string"))))
    for fname, t in all_forms:
        k += 1
        st = s.struct("CS%d" % k, [t, P("int32")])                      # (i) struct field followed by a sentinel
        shapes.append((st, ("struct", fname)))
        if with_nested_in_messages or not nested_container(t):
            ms = s.message("CM%d" % k, [(1, t, False), (7, P("int32"), False)])   # (ii) message field followed by a sentinel index
            shapes.append((ms, ("message", fname)))
            md = s.message("CD%d" % k, [(2, t, True), (3, P("int32"), False), (9, t, False)])  # (iii) deprecated + live
            shapes.append((md, ("message-dep", fname)))
            bs = s.struct("CUs%d" % k, [t, P("uint8")])
            bm = s.message("CUm%d" % k, [(1, t, False), (2, P("uint8"), False)])
            un = s.union("CU%d" % k, [(1, bs), (4, bm)])                # (iv) union branches
            shapes.append((un, ("union", fname)))
        else:
            bs = s.struct("CUs%d" % k, [t, P("uint8")])
            un = s.union("CU%d" % k, [(1, bs)])
            shapes.append((un, ("union", fname)))
    for key in ("S", "E0", "RO", "BIG", "G", "M", "R", "U", "L"):
        shapes.append((recs[key], ("leaf", key)))
    return s, shapes


# ---------------------------------------------------------------- values
def int_val(w, signed, rng, pick=None):
    bits = 8 * w
    if signed:
        lo, hi = -(1 << (bits - 1)), (1 << (bits - 1)) - 1
        c = [lo, hi, -1, 0, 1, lo + 1, hi - 1]
    else:
        lo, hi = 0, (1 << bits) - 1
        c = [0, hi, 1, hi - 1, 1 << (bits - 1), 0x80, 0x7f]
    p = rng.below(14) if pick is None else pick
    if p < len(c):
        return c[p]
    return lo + rng.next() % (hi - lo + 1)


def zt(v):
    return "Z-%x" % -v if v < 0 else "Z%x" % v


FLOAT32_SPECIAL = [0x7fc00000, 0x7f800000, 0xff800000, 0x7fa00001, 0xffc12345, 0x00000001, 0x80000000, 0x3f800000]
FLOAT64_SPECIAL = [0x7ff8000000000000, 0x7ff0000000000000, 0xfff0000000000000, 0x7ff4000000000001, 0xfff8000000012345, 1, 0x8000000000000000, 0x3ff0000000000000]
MAX_TICKS = 92233720368547758   # |ticks| * 100 fits an int64


class ValueGen:
    """builds one value (token list) for a type; style in {'zero','min','max','rand','big'}"""

    def __init__(self, rng, style, maxlen=3, depth_budget=4, keyable_nan=False, nan_keys=False):
        self.rng, self.style, self.maxlen, self.budget = rng, style, maxlen, depth_budget
        self.nan_keys = nan_keys        # float-keyed maps get ONE NaN key (an entry a Go map holds but cannot look up) - only where asked for

    def count(self):
        if self.style == "zero":
            return 0
        if self.style in ("min", "max"):
            return 1
        return self.rng.below(self.maxlen + 1)

    def prim(self, p, as_key=False):
        r, st = self.rng, self.style
        if p == "bool":
            return ["B1" if (st == "max" or (st == "rand" and r.below(2))) else "B0"]
        if p == "string":
            if st == "zero":
                return ["X-"]
            if st == "big" and not as_key:
                return ["X" + r.bytes(200 + r.below(400)).hex()]
            # mostly short; now and then longer than the 8-byte scratch of an ErrorReader / ErrorWriter, occasionally longer than any small buffer
            k = r.below(20)
            n = r.below(7) if (k < 14 or as_key) else 7 + r.below(6) if k < 17 else 13 + r.below(40) if k < 19 else 200 + r.below(400)
            b = r.bytes(n) if r.below(3) else bytes(r.choice([0x41, 0xc3, 0x28, 0xff, 0x00, 0x80]) for _ in range(n))   # non-UTF-8 too
            return ["X" + (b.hex() or "-")]
        if p == "guid":
            return ["X" + ("00" * 16 if st == "zero" else "ff" * 16 if st == "max" else r.bytes(16).hex())]
        if p == "date":
            if st == "zero":
                return ["Z0"]
            if st == "min":
                return [zt(-MAX_TICKS)]
            if st == "max":
                return [zt(MAX_TICKS)]
            c = [1, -1, 621355968000000000 // 7, 16725225600000000, -(10 ** 15)]
            k = r.below(10)
            return [zt(c[k] if k < len(c) else (r.next() % (2 * MAX_TICKS + 1)) - MAX_TICKS)]
        if p in ("float32", "float64"):
            sp = FLOAT32_SPECIAL if p == "float32" else FLOAT64_SPECIAL
            bits = 32 if p == "float32" else 64
            if st == "zero":
                return ["Z0"]
            if st == "min":
                return [zt(sp[2])]
            if st == "max":
                return [zt(sp[1] if as_key else sp[0])]
            k = r.below(16)
            if k < len(sp) and not (as_key and k in (0, 3, 4)):    # no NaN keys: NaN != NaN in a Go map
                return [zt(sp[k])]
            v = r.next() % (1 << bits)
            if as_key:
                # avoid NaN patterns and -0 (equal to +0 as a key)
                exp_all = (0xff << 23) if bits == 32 else (0x7ff << 52)
                if v & exp_all == exp_all or v == (1 << (bits - 1)):
                    v &= ~(1 << (bits - 2))
            return [zt(v)]
        w, sg = INTW[p]
        pick = {"zero": 3 if sg else 0, "min": 0, "max": 1}.get(st)
        return [zt(int_val(w, sg, r, pick))]

    def value(self, t, depth=0):
        r = self.rng
        if t[0] == "p":
            return self.prim(t[1])
        if t[0] == "e":
            return self.prim(t[2])
        if t[0] == "a":
            n = self.count() if depth < self.budget else 0
            if self.style == "big" and t[1][0] in "pe" and depth == 0:
                n = 300 + r.below(200)
            out = ["A%d" % n]
            for _ in range(n):
                out += self.value(t[1], depth + 1)
            return out
        if t[0] == "m":
            n = self.count() if depth < self.budget else 0
            keys, out = set(), []
            # one NaN key per float-keyed map at most (an entry a Go map keeps but cannot look up): always where asked for, now and then otherwise
            if t[1] in ("float32", "float64") and (self.nan_keys or (self.style == "rand" and n > 0 and r.below(4) == 0)):
                nan = zt((FLOAT32_SPECIAL if t[1] == "float32" else FLOAT64_SPECIAL)[r.choice([0, 3, 4])])
                keys.add(nan)
                out += [nan] + self.value(t[2], depth + 1)
            for _ in range(n):
                k = self.prim(t[1], as_key=True)
                if t[1] == "bool" and len(keys) >= 2:
                    break
                tries = 0
                while k[0] in keys and tries < 20:
                    k = ValueGen(r, "rand").prim(t[1], as_key=True)
                    tries += 1
                if k[0] in keys:
                    continue
                keys.add(k[0])
                out += k + self.value(t[2], depth + 1)
            return ["P%d" % len(keys)] + out
        d = t[1]
        return self.record(d, depth)

    def record(self, d, depth=0):
        r = self.rng
        if d.kind == "struct":
            out = ["T%d" % len(d.fields)]
            for _, ft in d.fields:
                out += self.value(ft, depth + 1)
            return out
        if d.kind == "message":
            out = ["G%d" % len(d.fields)]
            for idx, _, ft, dep in d.fields:
                present = {"zero": False, "min": True, "max": True}.get(self.style, r.below(3) > 0)
                if depth >= self.budget:
                    present = False
                if present:
                    out += ["J"] + self.value(ft, depth + 1)
                else:
                    out += ["N"]
            return out
        # union: exactly one member
        if depth >= self.budget:
            # pick the shallowest branch
            cands = [(disc, bd) for disc, bd in d.fields if not bd.fields] or d.fields
            disc, bd = cands[0]
        else:
            disc, bd = d.fields[{"zero": 0, "min": 0, "max": len(d.fields) - 1}.get(self.style, r.below(len(d.fields)))]
        return ["U%d" % disc] + self.record(bd, depth + 1)


def values_for(d, rng, n_random):
    """boundary values first, then random ones; each a token string"""
    vals = []
    for st in ("zero", "min", "max", "big"):
        vals.append(" ".join(ValueGen(rng, st).record(d)))
    for i in range(n_random):
        vals.append(" ".join(ValueGen(rng, "rand", maxlen=2 + i % 3).record(d)))
    seen, out = set(), []
    for v in vals:
        if v not in seen:
            seen.add(v)
            out.append(v)
    return out


# ---------------------------------------------------------------- value trees (canonical comparison)
def parse_value(tokens, i=0, keep=False):
    """token list -> nested tuple, next index; keep=True preserves map entry order and duplicates"""
    t = tokens[i]
    c = t[0]
    if c in "BZX":
        return t, i + 1
    if c == "N":
        return None, i + 1
    if c == "J":
        return parse_value(tokens, i + 1, keep)
    n_str = t[1:]
    if c == "A":
        n = int(n_str)
        items, j = [], i + 1
        for _ in range(n):
            v, j = parse_value(tokens, j, keep)
            items.append(v)
        return ("A", tuple(items)), j
    if c == "P":
        n = int(n_str)
        items, j = [], i + 1
        for _ in range(n):
            k, j = parse_value(tokens, j, keep)
            v, j = parse_value(tokens, j, keep)
            items.append((k, v))
        # Go map semantics: a later duplicate key replaces the earlier one; order is irrelevant
        if keep:
            return ("P", tuple(items)), j
        d = {}
        for k, v in items:
            d[k] = v
        return ("P", tuple(sorted(d.items(), key=lambda kv: repr(kv[0])))), j
    if c == "T":
        n = int(n_str)
        items, j = [], i + 1
        for _ in range(n):
            v, j = parse_value(tokens, j, keep)
            items.append(v)
        return ("T", tuple(items)), j
    if c == "G":
        n = int(n_str)
        items, j = [], i + 1
        for _ in range(n):
            if tokens[j] == "N":
                items.append(None)
                j += 1
            else:
                v, j = parse_value(tokens, j + 1, keep)
                items.append(("J", v))
        return ("G", tuple(items)), j
    if c == "U":
        if t == "U-":
            return ("U", None, None), i + 1
        v, j = parse_value(tokens, i + 1, keep)
        return ("U", n_str, v), j
    raise ValueError("bad token %r" % t)


def canon(s):
    v, _ = parse_value(s.split())
    return v


def strip_deprecated(d, tree):
    """the property's normalisation of a VALUE TREE for record d: deprecated message fields are not transmitted"""
    def go_t(t, v):
        if t[0] == "a":
            return ("A", tuple(go_t(t[1], x) for x in v[1]))
        if t[0] == "m":
            return ("P", tuple((k, go_t(t[2], x)) for k, x in v[1]))
        if t[0] == "r":
            return go_d(t[1], v)
        return v

    def go_d(d, v):
        if d.kind == "struct":
            return ("T", tuple(go_t(ft, x) for (_, ft), x in zip(d.fields, v[1])))
        if d.kind == "message":
            out = []
            for (idx, _, ft, dep), x in zip(d.fields, v[1]):
                out.append(None if (x is None or dep) else ("J", go_t(ft, x[1])))
            return ("G", tuple(out))
        if v[1] is None:
            return v
        for disc, bd in d.fields:
            if str(disc) == v[1]:
                return ("U", v[1], go_d(bd, v[2]))
        return v
    return go_d(d, tree)


def unparse(d, tree):
    """value tree -> token string (used to hand the NORMALISED value to the strict reference encoder)"""
    out = []

    def emit(v):
        if v is None:
            out.append("N")
        elif isinstance(v, str):
            out.append(v)
        elif v[0] == "A":
            out.append("A%d" % len(v[1]))
            for x in v[1]:
                emit(x)
        elif v[0] == "P":
            out.append("P%d" % len(v[1]))
            for k, x in v[1]:
                emit(k)
                emit(x)
        elif v[0] == "T":
            out.append("T%d" % len(v[1]))
            for x in v[1]:
                emit(x)
        elif v[0] == "G":
            out.append("G%d" % len(v[1]))
            for x in v[1]:
                if x is None:
                    out.append("N")
                else:
                    out.append("J")
                    emit(x[1])
        elif v[0] == "U":
            if v[1] is None:
                out.append("U-")
            else:
                out.append("U" + v[1])
                emit(v[2])
    emit(tree)
    return " ".join(out)


def has_multimap(tree):
    if tree is None or isinstance(tree, str):
        return False
    if tree[0] == "P":
        return len(tree[1]) > 1 or any(has_multimap(x) for _, x in tree[1])
    if tree[0] in "AT":
        return any(has_multimap(x) for x in tree[1])
    if tree[0] == "G":
        return any(x is not None and has_multimap(x[1]) for x in tree[1])
    if tree[0] == "U":
        return has_multimap(tree[2])
    return False


def permute_maps(tree, mode):
    """reorder the entries of every map in a kept-order tree: mode 0 reverse, 1 rotate, 2 swap first two"""
    if tree is None or isinstance(tree, str):
        return tree
    if tree[0] == "P":
        items = [(k, permute_maps(x, mode)) for k, x in tree[1]]
        if mode == 0:
            items.reverse()
        elif mode == 1 and items:
            items = items[1:] + items[:1]
        elif mode == 2 and len(items) > 1:
            items[0], items[1] = items[1], items[0]
        return ("P", tuple(items))
    if tree[0] in "AT":
        return (tree[0], tuple(permute_maps(x, mode) for x in tree[1]))
    if tree[0] == "G":
        return ("G", tuple(None if x is None else ("J", permute_maps(x[1], mode)) for x in tree[1]))
    if tree[0] == "U":
        return ("U", tree[1], permute_maps(tree[2], mode))
    return tree


def has_float_key(t):
    """does the type (or anything inside it) contain a map keyed by a float"""
    seen = set()
    def go(t):
        if t[0] == "m":
            return t[1] in ("float32", "float64") or go(t[2])
        if t[0] == "a":
            return go(t[1])
        if t[0] == "r":
            d = t[1]
            if id(d) in seen:
                return False
            seen.add(id(d))
            if d.kind == "struct":
                return any(go(ft) for _, ft in d.fields)
            if d.kind == "message":
                return any(go(ft) for _, _, ft, _ in d.fields)
            return any(go(("r", bd)) for _, bd in d.fields)
        return False
    return go(t)
