import front


def check(tier, seed, replay=None):
    front.check_c13(tier, seed, replay)
