# C09: generator options never change what goes on the wire.
from vcommon import *
import wire, wiregen, wirerun


def check(tier, seed, replay=None):
    run = Run("C09", tier, seed)
    run.cov["rule"] = ("the shape cover generated under each option set (quick: unsafe / default / all five / private+pointer receivers; thorough: all 32); for every value the "
                       "bytes of the three encoders and the value decoded by every decoder (MustUnmarshalBebop included where generated) are compared with the default option set; "
                       "and, for readers generated with unsafe methods, MustUnmarshalBebop against UnmarshalBebop on encodings written by a peer under a newer schema or one that still "
                       "sends a field the reader deprecates (5 evolution kinds x 8 contexts); distinct = distinct (type, value)")
    run.cov["trusted_base"] = wire.WIRE_TRUSTED
    broken = None
    try:
        wire.maybe_proof(run, "props/C09.v", ["C09_must"])
    except BrokenTie as e:
        broken = e
    found = False
    try:
        s, shapes, cases, data = wire.v_batch(tier, seed)
    except BrokenTie as e:
        run.violation({"what": "the wire harness no longer builds against /repo", "detail": str(e)}, no_input=True)
        run.finish()
    wire.gen_failure_violation(run, data["fails"], "an option set makes the generator fail or emit code that does not build for the shape cover")
    wire.summarize_cases(run, cases)
    n = 0
    if "0" not in data["go"]:
        run.finish()
    base = [wirerun.parse_kv(g) for g in data["go"]["0"]]
    for o, i, d, tags, v, G, Mo in wire.iter_v(data, cases):
        if o == 0:
            continue
        n += 1
        B = base[i]
        bad = None
        if ("m" in B) != ("m" in G):
            bad = "encoders work under one option set only: %s vs %s" % (G["_raw"][:150], B["_raw"][:150])
        elif "m" in B:
            if G.get("size") != B.get("size"):
                bad = "Size() differs: %s vs %s" % (G.get("size"), B.get("size"))
            elif G.get("mm") == "0" and (G["m"], G["t"], G["e"]) != (B["m"], B["t"], B["e"]):
                bad = "bytes differ: %s vs %s" % (G["m"][:150], B["m"][:150])
            else:
                gg, bg = wire.decode_groups(G), wire.decode_groups(B)
                vals = set()
                for k, dump in list(gg.items()) + list(bg.items()):
                    try:
                        vals.add(wiregen.canon(dump.split(" !")[0]) if dump.startswith(("T", "G", "U")) else dump)
                    except Exception:
                        vals.add(dump)
                if len(vals) > 1:
                    bad = "decoded values differ between option sets or between MustUnmarshalBebop and UnmarshalBebop: %s vs %s" % (str(gg)[:200], str(bg)[:200])
        if bad:
            found = True
            if len(run.violations) < 3:
                run.violation({"what": bad, "option_set": wirerun.opt_label(o), "compared_with": "default", "type": d.name,
                               "schema_def": s.def_bop(d) if not d.inline else d.name, "value": v})
        if n % 1511 == 0:
            run.sample({"option_set": wirerun.opt_label(o), "type": d.name, "value": v[:120], "bytes": G.get("m", "")[:80], "same_as_default": True})
    # MustUnmarshalBebop against UnmarshalBebop on valid encodings this tree's own encoders never produce: bytes written by a peer under a newer schema, or
    # one that still sends a field the reader marks deprecated (the evolution pairs of the C04 check, reader generated with unsafe methods)
    import c04
    s1, s2, ctx = c04.build_pair()
    try:
        b1 = wirerun.build_package(s1, 1, "evo1")
        b2 = wirerun.build_package(s2, 1, "evo2")
        rng = SplitMix64(seed).fork("C09evo")
        ev_cases = [(d1, d2, c, v) for d1, d2, c in ctx for v in wiregen.values_for(d2, rng, 12 if tier == "thorough" else 3)]
        enc = wirerun.run_go(b2, ["V %s %s" % (d2.name, v) for d1, d2, c, v in ev_cases])
        ops, meta = [], []
        for (d1, d2, c, v), line in zip(ev_cases, enc):
            G = wirerun.parse_kv(line)
            if "m" in G:
                ops += ["DEC %s 1 %s" % (d1.name, G["m"]), "DEC %s 0 %s" % (d1.name, G["m"])]
                meta.append((d1, d2, c, v, G["m"]))
        res = wirerun.run_go(b1, ops)
        for k, (d1, d2, c, v, h) in enumerate(meta):
            chk, must = res[2 * k], res[2 * k + 1]
            n += 1
            if not chk.startswith("ok "):
                continue
            same = must.startswith("ok ")
            if same:
                try:
                    same = wiregen.canon(must[3:].split(" | ")[0]) == wiregen.canon(chk[3:].split(" | ")[0])
                except Exception:
                    same = must.split(" | ")[0] == chk.split(" | ")[0]
            if not same:
                found = True
                if len(run.violations) < 4:
                    run.violation({"what": "MustUnmarshalBebop disagrees with UnmarshalBebop on a valid encoding written by a peer (%s)" % c, "reader": s1.def_bop(d1) if not d1.inline else d1.name,
                                   "writer": s2.def_bop(d2) if not d2.inline else d2.name, "writer_value": v, "bytes": h[:400], "UnmarshalBebop": chk[:300], "MustUnmarshalBebop": must[:300]})
        run.notes["peer_encodings"] = len(meta)
    except wirerun.GenFailure as e:
        found = True
        run.violation({"what": "the generator fails on an evolution-pair schema: " + e.stage, "detail": e.detail[-1500:]})
    run.notes["option_sets"] = [wirerun.opt_label(int(o)) for o in data["go"]]
    run.count("evaluations", n)
    if broken:
        wire.finish_broken(run, "C09", broken, found)
    run.finish()
