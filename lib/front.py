# Front-end checks (C10, C11, C13, C16, C17): the extracted tokenizer / parser / formatter / validator models against /repo,
# plus the direct evaluation of each property on the implementation's results.
import os, re
from vcommon import *
import frontgen, frontrun
from frontgen import hx
from frontrun import hexs

ALPHABET = ["struct", "message", "enum", "union", "const", "import", "A", "b", "int32", "{", "}", "[", "]", "(", ")", ";", "=", "->", ",", ":", "1", "0x1f", "\"s\"",
            "\n", " ", "//c\n", "/*c*/", "opcode", "flags", "deprecated", "readonly", "map", "array", "-", "<<", "|", "/", "*", "\"", "$", "1.5", "true"]

APPEND = "\nstruct Zq9 { int32 a; }\n"
APPEND_MARK = "struct " + hx("Zq9") + " "


def testdata_files():
    out = []
    for root, _, files in os.walk(os.path.join(REPO, "testdata")):
        for fn in sorted(files):
            if fn.endswith(".bop"):
                try:
                    b = open(os.path.join(root, fn), "rb").read()
                except OSError:
                    continue
                if all(c < 128 for c in b) and len(b) < 6000:
                    out.append((os.path.relpath(os.path.join(root, fn), REPO), b))
    return sorted(out)


def gen_asts(rng, n, **kw):
    out = []
    for i in range(n):
        g = frontgen.AstGen(rng.fork("ast%d" % i), **kw)
        out.append(g.file(1 + rng.below(4)))
    return out


def cls(line):
    w = line.split(" ", 1)[0]
    return w if w in ("OK", "ERR", "PANIC", "HANG", "FUEL") else ("CRASH" if w.startswith("CRASH") else w)


def base_run(pid, tier, seed, rule, props_v=None, theorems=None):
    run = Run(pid, tier, seed)
    run.cov["rule"] = rule
    run.cov["trusted_base"] = frontrun.FRONT_TRUSTED
    broken = None
    if props_v and os.path.exists(os.path.join(COQ, props_v)):
        try:
            # translator T6: the tokenizer's lexical tables (kind numbers, keywords, token tree, skipped bytes) regenerated from the source; front/TokTie.v
            # proves that the hand-written tokenizer model's tables are those (C10_tables); built with every front-end property, whose model runs on them
            run_translator("t6", [os.path.join(REPO, "token.go"), os.path.join(REPO, "tokenize.go")], "gen/TokTable.v", "T6(token.go, tokenize.go)")
            # translator T2: the primitive type tables (C13_prims ties the validator model's list of primitive names to them)
            run_translator("t2", [os.path.join(REPO, "primitive.go"), os.path.join(REPO, "gen_templates.go")], "gen/Tables.v", "T2(primitive.go, gen_templates.go)")
            proof_step(run, props_v, theorems, extra_targets=["front/TokTie.v"])
        except BrokenTie as e:
            broken = e
    else:
        run.cov["explanation"] = "theorems for this property are not yet in the tree; this run is correspondence + search only"
    return run, broken


def finish(run, pid, broken, found):
    if broken:
        run.broken_tie(broken)
        if not found:
            run.violation({"what": "%s is no longer shown to hold" % pid, "broken_kind": broken.kind, "no_longer_checks": broken.name, "detail": broken.detail[-1500:]}, no_input=True)
    run.finish()


def both(ops):
    try:
        return frontrun.run_go(ops), frontrun.run_model(ops)
    except BrokenTie as e:
        return e, None


# =============================================================================== C10
def check_c10(tier, seed, replay=None):
    run, broken = base_run("C10", tier, seed,
        "inputs: every .bop under testdata (valid and invalid); all strings of <= 3 tokens over a 42-token alphabet; each of the 256 byte values in 18 grammar contexts; ten texts with comments trailing the entries of every construct cut at EVERY byte offset (clean end, reader failure, unterminated / unreadable token after the prefix); every pair punctuation byte x printable byte "
        "(thorough: every printable pair, also inside a struct body); generated schema texts and byte-level mutations of them "
        "(delete / insert / replace / truncate); each also with the reader failing (non-EOF error) at sampled offsets, short files at EVERY offset. Required of ReadFile: returns "
        "(no panic, no hang); a reader failure before the end gives an error; if it reports success on x then x + one more valid struct gives an error or a File containing that struct. "
        "The extracted model's result (full File dump) is compared on every input; distinct = distinct (input, failure offset)",
        "props/C10.v", ["C10_partial", "C10_no_panic", "C10_reader_failure", "C10_tables", "C10_terminates", "C10_tokenizer_fuel", "C10_consumes_input", "C10_no_error_dropped", "C10_append_schema"])
    rng = SplitMix64(seed).fork("C10")
    inputs = []     # (bytes, k, source)
    files = testdata_files()
    for name, b in files:
        inputs.append((b, -1, name))
        offs = range(len(b) + 1) if len(b) <= (400 if tier == "thorough" else 160) else sorted({rng.below(len(b) + 1) for _ in range(25)})
        for k in offs:
            inputs.append((b, k, name))
    depth = 3
    alpha = ALPHABET
    def strings(n):
        if n == 0:
            yield ""
            return
        for s in strings(n - 1):
            for a in alpha:
                yield s + (" " if s and s[-1].isalnum() and a[0].isalnum() else "") + a
    cnt = 0
    for n in range(1, depth + 1):
        for s in strings(n):
            cnt += 1
            if n == 3 and tier != "thorough" and cnt % 6:
                continue
            inputs.append((s.encode(), -1, "tokens"))
    asts = gen_asts(rng, 600 if tier == "thorough" else 150)
    for items in asts:
        txt = frontgen.render(items, frontgen.Layout(rng)).encode()
        inputs.append((txt, -1, "ast"))
        for _ in range(6):
            m = bytearray(txt)
            if not m:
                continue
            p = rng.below(len(m))
            kind = rng.below(5)
            if kind == 0:
                del m[p]
            elif kind == 1:
                m.insert(p, rng.choice(list(b"{}[];=\"/*$\n-<1a(")) if rng.below(3) else 32 + rng.below(95))
            elif kind == 2:
                m[p] = rng.choice(list(b"{}[];=\"/*$\n-<1a(")) if rng.below(3) else 32 + rng.below(95)
            elif kind == 3:
                m = m[:p]
            else:
                q = rng.below(len(m))
                del m[min(p, q):max(p, q)]
            inputs.append((bytes(m), -1, "ast-mutation"))
        for _ in range(4):
            inputs.append((txt, rng.below(len(txt) + 1), "ast"))
    # every byte value in every position class of the grammar (a byte the tokenizer has no entry for, or only a partial one, must be an error, never a panic),
    # and every pair of a punctuation byte with a printable byte at the top level (thorough: every printable pair, also inside a body)
    ctxs = [b"%s", b"%s\n", b"struct A { int32 %sx; }", b"struct A { %s int32 x; }", b"enum E { A = %s; }", b"enum E { A = %s1; }", b"const int32 x = %s 5;", b"const int32 x = %s5;",
            b"message M { %s1 -> int32 a; }", b"message M { 1 %s> int32 a; }", b"struct A { int32 x%s }", b"%sstruct A { }", b"struct A { int32[%s] x; }", b"1%s", b"-%s", b"struct A { map[string%s int32] m; }",
            b"[opcode(%s)] struct A { }", b"[flags] enum F { A = 1 %s 2; }"]
    for c in ctxs:
        for v in range(256):
            inputs.append((c.replace(b"%s", bytes([v])), -1, "byte-in-context"))
    punct = [v for v in range(33, 127) if not chr(v).isalnum()]
    printable = list(range(32, 127)) + [9, 10, 13]
    firsts = printable if tier == "thorough" else punct
    for a in firsts:
        for bb in printable:
            inputs.append((bytes([a, bb]), -1, "byte-pair"))
            if tier == "thorough":
                inputs.append((b"struct A { int32 " + bytes([a, bb]) + b" x; }", -1, "byte-pair"))
    # every construct with comments trailing its entries, cut at EVERY byte offset: the end of the input (clean, or a reader failure) and an
    # unterminated / unreadable token directly after every prefix - wherever a look-ahead for "the rest of this line" can run off the end
    cover = ['const int32 a = 1; /* t */ // e\n', 'struct A { int32 a; /* c */ /* d */\n int32 b; /* c */ }\n', 'enum E { A = 1; /* c */\n B = 2; // e\n}\n',
             'message M { 1 -> int32 a; /* c */\n}\n', 'union U { 1 -> struct A { int32 x; /* c */ } /* d */\n 2 -> message B { } // e\n}\n',
             '[opcode("abcd")] /* c */\nstruct S { } /* t */', '[flags] enum F { A = 1 << 1; /* c */ B = (A | 2); }', 'import "x.bop" /* c */\n',
             'struct A { [deprecated("x")] /* c */ int32 a; map[string, int32[]] m; /* t */ }', 'readonly struct R { guid g; } /* c */ enum E : uint8 { A = 1; } /* d */']
    for t in cover:
        tb = t.encode()
        for k in range(len(tb) + 1):
            inputs.append((tb, k, "cut-cover"))
            inputs.append((tb[:k], -1, "cut-cover"))
            if tier == "thorough" or k % 2 == 0 or tb[max(0, k - 2):k] == b"*/":
                for suf in (b"/*", b'"', b"\xa7", b"  ", b"/* c */", b"/* c */ "):
                    inputs.append((tb[:k] + suf, -1, "cut-cover"))
    # special: things known to matter
    for s in ["[flags] enum E:int32 {A = 1 << -1;}", "struct A{int32 a;}\n$ struct B{}", "struct A{}\n/* open", "struct A{}\n\"open", "/* c */", "struct A{}/* c */",
              "enum E { A = 1; } /*/", "/*/", "message s{/*/ //e", "[flags]\nenum F { A = 1; B = A | 1; }\nstruct X { int32 a; }", "", "\n", "import \"a.bop\""]:
        inputs.append((s.encode(), -1, "special"))
        inputs.append((s.encode(), 0, "special"))
    seen, uniq = set(), []
    for b, k, src in inputs:
        key = (b, k)
        if key not in seen:
            seen.add(key)
            uniq.append((b, k, src))
    inputs = uniq
    ops = ["READ %d %s" % (k, hexs(b)) for b, k, src in inputs]
    gl, ml = both(ops)
    if isinstance(gl, BrokenTie):
        run.violation({"what": "the front-end harness no longer builds against /repo (with -tags verif)", "detail": str(gl)}, no_input=True)
        run.finish()
    found = False
    tally = {}
    ok_inputs = []
    for (b, k, src), op, g, m in zip(inputs, ops, gl, ml):
        run.nontrivial((b, k))
        cg, cm = cls(g), cls(m)
        tally[(src, cg)] = tally.get((src, cg), 0) + 1
        bad, key, what = None, None, None
        if cg not in ("OK", "ERR"):
            bad = "ReadFile does not return normally: %s" % g[:120]
            if cg == "PANIC" and cm == "PANIC":
                if k == 0:
                    key, what = "C10/reader-fails-before-first-byte-panics", "a reader that fails before delivering any byte makes the tokenizer call UnreadByte with nothing read: ReadFile panics"
                elif b"<<" in b or b">>" in b:
                    key, what = "C10/negative-shift-count-panics", "a negative shift count in a [flags] enum expression (1 << -1) panics in the evaluator instead of being rejected"
        elif k >= 0 and k <= len(b) and cg == "OK":
            bad = "the reader failed with an I/O error after %d of %d bytes and ReadFile returned nil" % (k, len(b))
            if cm == "OK":
                key, what = "C10/tokenizer-error-between-definitions-dropped", ("errors raised by the tokenizer between definitions (a failed read, a stray byte, an unterminated comment or string) "
                                                                               "end ReadFile's top-level loop and are discarded: a truncated File with a nil error")
        elif g != m:
            bad = "implementation and model disagree: impl=%s model=%s" % (g[:200], m[:200])
        if bad:
            if key and run.known(key, what):
                pass
            else:
                found = True
                if len(run.violations) < 4:
                    run.violation({"what": bad, "input_hex": hexs(b), "input_text": b.decode("latin1")[:300], "reader_fails_after": k, "source": src, "impl": g[:300], "model": m[:300], "op": op[:2000]})
        if k < 0 and cg == "OK":
            ok_inputs.append((b, src, g))
    # success means the whole input was consumed: appending one more valid definition
    ops2 = ["READ -1 %s" % hexs(b + APPEND.encode()) for b, src, g in ok_inputs]
    gl2, ml2 = both(ops2)
    for (b, src, g0), op, g, m in zip(ok_inputs, ops2, gl2, ml2):
        cg = cls(g)
        bad, key, what = None, None, None
        if cg == "OK" and APPEND_MARK not in g:
            bad = "ReadFile accepts x and accepts x + a struct definition, but the struct is not in the File: part of the input is silently dropped"
            if cls(m) == "OK" and APPEND_MARK not in m:
                key, what = "C10/tokenizer-error-between-definitions-dropped", "tokenizer errors between definitions are discarded"
        elif cg not in ("OK", "ERR"):
            bad = "ReadFile does not return normally on the extended input: %s" % g[:100]
        elif g != m:
            bad = "implementation and model disagree on the extended input: impl=%s model=%s" % (g[:200], m[:200])
        if bad:
            if key and run.known(key, what):
                continue
            found = True
            if len(run.violations) < 5:
                run.violation({"what": bad, "input_text": b.decode("latin1")[:400], "appended": APPEND, "impl": g[:400], "model": m[:400], "op": op[:2000]})
    # the same statement on LARGE inputs (a size cap, a fixed buffer, a 16/32-bit counter would show only here): x = one definition followed by padding of a
    # given kind up to just above a power-of-two size; x must be accepted, and x + one more definition must give an error or a File that contains it.
    # Implementation only - the extracted model is quadratic in the input size and is not run on these (its answer on them is the theorem's: C10_partial).
    n_big = 0
    for exp in ([16, 20, 21, 22, 24] if tier != "thorough" else [16, 18, 20, 21, 22, 23, 24, 25, 26]):
        for kind in ("blank", "comment", "defs", "spaces", "block"):
            size = (1 << exp) + 100
            if kind == "defs" and exp > 22:
                continue
            if kind == "blank":
                x = b"struct A { int32 a; }\n" + b"\n" * size
            elif kind == "spaces":
                x = b"struct A { int32 a; }\n" + b" " * size + b"\n"
            elif kind == "comment":
                line = b"// " + b"x" * 60 + b"\n"
                x = b"struct A { int32 a; }\n" + line * (size // len(line) + 1)
            elif kind == "block":
                x = b"struct A { int32 a; }\n/* " + b"y" * size + b" */\n"
            else:
                parts, n, i = [], 0, 0
                while n < size:
                    s = b"struct S%d { int32 a; string b; }\n" % i
                    parts.append(s); n += len(s); i += 1
                x = b"".join(parts)
            g1, g2 = frontrun.run_go(["READ -1 %s" % hexs(x), "READ -1 %s" % hexs(x + APPEND.encode())])
            n_big += 2
            run.nontrivial((kind, exp))
            bad = None
            if cls(g1) not in ("OK", "ERR") or cls(g2) not in ("OK", "ERR"):
                bad = "ReadFile does not return normally on a %d-byte input: %s / %s" % (len(x), g1[:80], g2[:80])
            elif cls(g1) != "OK":
                bad = "ReadFile rejects a valid %d-byte schema (one definition followed by %s padding): %s" % (len(x), kind, g1[:120])
            elif cls(g2) == "OK" and APPEND_MARK not in g2:
                bad = ("ReadFile accepts a %d-byte input x and accepts x + a struct definition, but the struct is not in the File: input beyond some size is silently dropped" % len(x))
            if bad:
                found = True
                if len(run.violations) < 5:
                    run.violation({"what": bad, "input": "one struct definition followed by %d bytes of `%s` padding (kinds: blank lines / spaces / line comments / one block comment / more definitions)" % (size, kind),
                                   "size": len(x), "appended": APPEND, "impl_on_x": g1[:200], "impl_on_x_plus_def": g2[:200]})
    run.notes["large_input_append_checks"] = n_big
    run.count("evaluations", len(ops) + len(ops2) + n_big)
    run.notes["outcomes_by_source"] = {"%s/%s" % k: v for k, v in sorted(tally.items())}
    run.notes["append_checks"] = len(ops2)
    for (b, k, src), g in list(zip(inputs, gl))[:: max(1, len(inputs) // 5)][:5]:
        run.sample({"input": b.decode("latin1")[:80], "reader_fails_after": k, "impl": g[:80]})
    finish(run, "C10", broken, found)


# =============================================================================== C11
def strip_comments(dump):
    """erase what C16 lets a formatter change: doc comments, and the field tags, which are written as doc comments of a fixed shape (`//[tag(k:"v")]`) and
    follow their attachment (a tag line after an end-of-line block comment attaches only once the formatter has moved that comment to its own line)"""
    return re.sub(r" \[[0-9a-f:,a-z]*\]( ;|$)", r" []\1", re.sub(r" c=[0-9a-f]*", " c=", dump))


def c11_cases(rng, tier):
    cases = []
    n = 900 if tier == "thorough" else 220
    asts = gen_asts(rng, n)
    # every ordered pair / triple of definition kinds (that is where pending-attribute leaks show)
    kinds = ["struct", "message", "enum", "flags", "union", "const", "import"]
    def mk(g, k):
        if k == "struct":
            it = g.struct(); g.records.append(it["name"]); return it
        if k == "message":
            it = g.message(); g.records.append(it["name"]); return it
        if k == "union":
            it = g.union(); g.records.append(it["name"]); return it
        if k == "const":
            return g.const()
        if k == "import":
            return {"kind": "import", "path": "x%d.bop" % g.rng.below(9)}
        it = g.enum()
        while (k == "flags") != it["flags"]:
            it = g.enum()
        g.enums.append(it["name"])
        return it
    q = 0
    for a in kinds:
        for b in kinds:
            for c in ([None] + kinds if tier == "thorough" else [None, kinds[q % len(kinds)]]):
                q += 1
                g = frontgen.AstGen(rng.fork("seq%d" % q))
                items = [mk(g, a), mk(g, b)] + ([mk(g, c)] if c else [])
                asts.append(items)
    for items in asts:
        layouts = [frontgen.Layout(canonical=True)] + [frontgen.Layout(rng) for _ in range(3 if tier == "thorough" else 2)]
        for L in layouts:
            cases.append((items, L, frontgen.render(items, L)))
    return cases


def c11_known(items, run, g, m):
    """no C11 finding is listed any more: the four of the first rounds were repaired (known_findings.json, `fixed`)"""
    return False


def check_c11(tier, seed, replay=None):
    run, broken = base_run("C11", tier, seed,
        "schema ASTs (every construct: imports, consts of every type incl. inf / nan / escapes, enums typed and untyped, [flags] enums with shift and |,& expressions over earlier members, "
        "structs incl. readonly and opcodes (numeric and 4-char), messages with unordered indices, unions with struct / message branches, deprecations, doc comments; plus every ordered "
        "pair and sampled triples of definition kinds) rendered under the canonical layout and 2-3 random permitted layouts (CRLF, tabs, blank lines, one-line bodies, spacing of -> , ; and "
        "types, array[T] vs T[], final newline or not); ReadFile's File (canonical dump) must equal the dump computed from the AST, for every layout; the extracted model runs on the same text",
        "props/C11.v", ["C11_partial", "C11_lex", "C11_structs", "C11_records", "C11_schema"])
    rng = SplitMix64(seed).fork("C11")
    cases = c11_cases(rng, tier)
    # hand-written cases for attachments the generator does not produce
    extra = [("enum E { A = 1; // about A\n B = 2;\n}\n", None,
              "OK ; imports  ; gopackage  ; enum 45 c= t=75696e743332 u=true ;  opt 41 c= dm= d=false v=0 uv=1 ;  opt 42 c= dm= d=false v=0 uv=2"),
             ("struct S { int32 a; // about a\n int32 b;\n}\n", None,
              "OK ; imports  ; gopackage  ; struct 53 c= op=0 ro=false ;  field 61 c= dm= d=false S:696e743332 [] ;  field 62 c= dm= d=false S:696e743332 []"),
             ("enum E { A = 1; /* b */ /* c */ // about A\n // about B\n B = 2; /* tail */ }\n", None,
              "OK ; imports  ; gopackage  ; enum 45 c= t=75696e743332 u=true ;  opt 41 c= dm= d=false v=0 uv=1 ;  opt 42 c=2061626f75742042 dm= d=false v=0 uv=2"),
             ("// doc\n[flags]\nenum F { A = 1; }\nstruct X { int32 a; }\nenum G { B = 3; }\n", None,
              "OK ; imports  ; gopackage  ; struct 58 c= op=0 ro=false ;  field 61 c= dm= d=false S:696e743332 [] ; enum 46 c=20646f63 t=75696e743332 u=true ;  opt 41 c= dm= d=false v=0 uv=1 ; "
              "enum 47 c= t=75696e743332 u=true ;  opt 42 c= dm= d=false v=0 uv=3"),
             # an attribute above an import annotates nothing: not a well-formed text, rejected since the repair
             ("[opcode(\"abcd\")]\nimport \"x.bop\"\nstruct S { }\n", None, "ERR"),
             ("[flags]\nimport \"x.bop\"\nenum S { A = 1; }\n", None, "ERR")]
    ops = ["READ -1 %s" % hexs(txt) for items, L, txt in cases] + ["READ -1 %s" % hexs(t) for t, _, _ in extra]
    gl, ml = both(ops)
    if isinstance(gl, BrokenTie):
        run.violation({"what": "the front-end harness no longer builds against /repo", "detail": str(gl)}, no_input=True)
        run.finish()
    found = False
    n = 0
    for (items, L, txt), op, g, m in zip(cases, ops, gl, ml):
        n += 1
        run.nontrivial(txt)
        exp = frontrun.norm(" ; ".join(["OK"] + frontgen.expected_dump(frontgen.effective(items, L))))
        bad = None
        if g != exp:
            bad = "ReadFile's File differs from what the text says"
        elif g != m:
            bad = "implementation and model disagree"
        if bad:
            if c11_known(items, run, g, m):
                continue
            found = True
            if len(run.violations) < 4:
                run.violation({"what": bad, "text": txt, "expected": exp[:1500], "impl": g[:1500], "model": m[:600], "op": op[:3000]})
        if n % 211 == 0:
            run.sample({"text": txt[:300], "file": g[:200]})
    for (t, key, exp), g, m in zip(extra, gl[len(cases):], ml[len(cases):]):
        n += 1
        if (cls(g) != "ERR" or g != m) if exp == "ERR" else g != exp:
            found = True
            run.violation({"what": "ReadFile's File differs from what the text says", "text": t, "expected": exp, "impl": g[:600], "model": m[:600]})
    run.count("evaluations", n)
    finish(run, "C11", broken, found)


# =============================================================================== C13
def inject(items, rng):
    """yield (class, site, mutated items) for one semantic error each; items are deep-copied"""
    import copy
    out = []
    recs = [i for i, it in enumerate(items) if it["kind"] in ("struct", "message")]
    unions = [i for i, it in enumerate(items) if it["kind"] == "union"]
    enums = [i for i, it in enumerate(items) if it["kind"] == "enum" and not it["flags"]]
    defs = [i for i, it in enumerate(items) if it["kind"] in ("struct", "message", "union", "enum")]

    def clone():
        return copy.deepcopy(items)
    def wrap(t, how):
        return t if how == 0 else (("a", t) if how == 1 else (("m", "string", t) if how == 2 else ("a", ("m", "int32", t))))
    for how, hname in enumerate(["plain", "in-array", "in-map-value", "in-array-of-map"]):
        for i in recs:
            c = clone()
            f = {"type": wrap(("s", "NoSuchType"), how), "name": "zz"}
            if c[i]["kind"] == "message":
                f["index"] = max([x["index"] for x in c[i]["fields"]] + [0]) % 255 + 1
                if any(x["index"] == f["index"] for x in c[i]["fields"]):
                    continue
            c[i]["fields"].append(f)
            out.append(("undefined-type", "%s-field/%s" % (c[i]["kind"], hname), c))
            break
        for i in unions:
            c = clone()
            bd = c[i]["branches"][0]["def"]
            f = {"type": wrap(("s", "NoSuchType"), how), "name": "zz"}
            if bd["kind"] == "message":
                f["index"] = max([x["index"] for x in bd["fields"]] + [0]) % 255 + 1
                if any(x["index"] == f["index"] for x in bd["fields"]):
                    continue
            bd["fields"].append(f)
            out.append(("undefined-type", "union-branch-%s-field/%s" % (bd["kind"], hname), c))
            break
    if len(defs) >= 2:
        c = clone()
        c[defs[1]]["name"] = c[defs[0]]["name"]
        out.append(("duplicate-definition-name", "%s/%s" % (c[defs[0]]["kind"], c[defs[1]]["kind"]), c))
    for i in recs:
        if len(items[i]["fields"]) >= 2:
            c = clone()
            c[i]["fields"][1]["name"] = c[i]["fields"][0]["name"]
            out.append(("duplicate-field-name", c[i]["kind"], c))
            break
    for i in unions:
        bd = items[i]["branches"][0]["def"]
        if len(bd["fields"]) >= 2:
            c = clone()
            c[i]["branches"][0]["def"]["fields"][1]["name"] = bd["fields"][0]["name"]
            out.append(("duplicate-field-name", "union-branch-" + bd["kind"], c))
            break
    for i in unions:
        c = clone()
        tops = [it["name"] for it in items if it["kind"] in ("struct", "message", "enum") ]
        if tops:
            c[i]["branches"][0]["def"]["name"] = tops[0]
            out.append(("duplicate-definition-name", "union-branch-vs-top-level", c))
            break
    if len(unions) >= 2:
        c = clone()
        c[unions[1]]["branches"][0]["def"]["name"] = c[unions[0]]["branches"][0]["def"]["name"]
        out.append(("duplicate-definition-name", "union-branch-vs-branch-of-another-union", c))
    for i in unions:
        c = clone()
        c[i]["branches"][0]["def"]["name"] = c[i]["name"]
        out.append(("duplicate-definition-name", "union-branch-vs-its-own-union", c))
        laters = [it["name"] for it in items[i + 1:] if it["kind"] in ("struct", "message", "enum", "union")]
        if laters:
            c = clone()
            c[i]["branches"][0]["def"]["name"] = laters[-1]
            out.append(("duplicate-definition-name", "union-branch-vs-later-definition", c))
        c = clone()
        c[i]["branches"][0]["def"]["name"] = "uint16"
        out.append(("definition-named-like-a-primitive", "union-branch uint16", c))
        break
    for i in enums:
        if len(items[i]["members"]) >= 2:
            c = clone()
            c[i]["members"][1]["name"] = c[i]["members"][0]["name"]
            out.append(("duplicate-enum-option-name", "enum", c))
            c = clone()
            c[i]["members"][1]["text"], c[i]["members"][1]["value"] = c[i]["members"][0]["text"], c[i]["members"][0]["value"]
            out.append(("duplicate-enum-value", "enum", c))
            break
    for i in enums:
        c = clone()
        bits, signed = frontgen.ENUM_BASES[c[i]["base"]]
        v = (1 << (bits - 1)) if signed else (1 << bits)
        if bits < 64:
            c[i]["members"][0]["text"], c[i]["members"][0]["value"] = str(v), v
            out.append(("enum-value-outside-base-type", c[i]["base"], c))
        c = clone()
        if not signed:
            c[i]["members"][0]["text"] = "-1"
            out.append(("enum-value-outside-base-type", c[i]["base"] + "/negative", c))
        break
    for i, it in enumerate(items):
        if it["kind"] == "message" and len(it["fields"]) >= 2:
            c = clone()
            c[i]["fields"][1]["index"] = c[i]["fields"][0]["index"]
            out.append(("duplicate-message-index", "message", c))
            break
    for i, it in enumerate(items):
        if it["kind"] == "message" and it["fields"]:
            c = clone()
            c[i]["fields"][0]["index"] = 0
            out.append(("message-index-zero", "message", c))
            break
    for i in unions:
        if items[i]["branches"][0]["def"]["kind"] == "message" and items[i]["branches"][0]["def"]["fields"]:
            c = clone()
            c[i]["branches"][0]["def"]["fields"][0]["index"] = 0
            out.append(("message-index-zero", "union-branch-message", c))
            break
    for i in unions:
        if len(items[i]["branches"]) >= 2:
            c = clone()
            c[i]["branches"][1]["disc"] = c[i]["branches"][0]["disc"]
            out.append(("duplicate-union-index", "union", c))
        break
    ops_ = [i for i, it in enumerate(items) if it["kind"] in ("struct", "message", "union")]
    if len(ops_) >= 2:
        c = clone()
        for i in ops_[:2]:
            c[i]["opcode"], c[i]["opcode_text"] = 0x11223344, "0x11223344"
        out.append(("duplicate-opcode", "%s/%s" % (c[ops_[0]]["kind"], c[ops_[1]]["kind"]), c))
        c = clone()
        c[ops_[0]]["opcode"], c[ops_[0]]["opcode_text"] = int.from_bytes(b"abcd", "little"), '"abcd"'
        c[ops_[1]]["opcode"], c[ops_[1]]["opcode_text"] = int.from_bytes(b"abcd", "little"), "0x%x" % int.from_bytes(b"abcd", "little")
        out.append(("duplicate-opcode", "string-vs-number", c))
    # every (type class, literal kind) pair that is not assignable: integers take integer literals only; floats take numbers, inf, -inf, nan; strings and guids
    # take string literals (a guid one of 32 hex digits); bools take true / false
    lits = {"int": "5", "float": "1.5", "inf": "inf", "neginf": "-inf", "nan": "nan", "true": "true", "false": "false", "str": '"s"', "guidstr": '"01234567-89ab-cdef-0123-456789abcdef"'}
    okfor = {"int32": {"int"}, "uint8": {"int"}, "int64": {"int"}, "uint64": {"int"}, "byte": {"int"}, "float32": {"int", "float", "inf", "neginf", "nan"},
             "float64": {"int", "float", "inf", "neginf", "nan"}, "string": {"str", "guidstr"}, "bool": {"true", "false"}, "guid": {"guidstr"}}
    mism = [(t, lits[k]) for t in okfor for k in lits if k not in okfor[t]]
    for t, txt in [("int32", '"s"'), ("string", "5"), ("bool", "1"), ("uint8", "1.5"), ("guid", '"1234"'), ("float32", '"x"'), ("uint8", "-1"), ("uint8", "256"), ("int16", "40000"), ("date", "5")] + mism:
        c = clone()
        c.append({"kind": "const", "type": t, "name": "zzc", "text": txt, "value_text": txt, "opcode": None})
        out.append(("const-not-assignable", "%s = %s" % (t, txt), c))
    for i in defs:
        for p in ("int32", "string", "guid", "date", "byte"):
            c = clone()
            c[i]["name"] = p
            out.append(("definition-named-like-a-primitive", "%s %s" % (c[i]["kind"], p), c))
        break
    structs = [i for i, it in enumerate(items) if it["kind"] == "struct"]
    if structs:
        c = clone()
        c[structs[0]]["fields"].append({"type": ("s", c[structs[0]]["name"]), "name": "self"})
        out.append(("recursive-struct", "direct", c))
    if len(structs) >= 2:
        c = clone()
        a, b = structs[0], structs[1]
        c[a]["fields"].append({"type": ("s", c[b]["name"]), "name": "tob"})
        c[b]["fields"].append({"type": ("s", c[a]["name"]), "name": "toa"})
        out.append(("recursive-struct", "through-another-struct", c))
        if len(structs) >= 3:
            c = clone()
            x, y, z = structs[:3]
            c[x]["fields"].append({"type": ("s", c[y]["name"]), "name": "p"})      # x leads into the cycle y <-> z but is not on it
            c[y]["fields"].append({"type": ("s", c[z]["name"]), "name": "q"})
            c[z]["fields"].append({"type": ("s", c[y]["name"]), "name": "r"})
            out.append(("recursive-struct", "cycle-entered-from-outside", c))
    return out


C13_KNOWN = {
    ("message-index-zero", None): ("C13/message-index-zero-accepted", "a message field with index 0 (the wire terminator) is accepted"),
    ("undefined-type", "union-branch"): ("C13/undefined-type-inside-union-branch-accepted", "types used by the fields of a union branch are not checked for definedness (the field is then silently not encoded)"),
    ("const-not-assignable", "out-of-range"): ("C13/out-of-range-integer-const-accepted", "an integer const literal outside its type's range is accepted with a warning only (uint8 = 256, uint8 = -1 is rejected, int16 = 40000)"),
}


def c13_known_key(klass, site):
    if klass == "message-index-zero":
        return C13_KNOWN[("message-index-zero", None)]
    if klass == "undefined-type" and site.startswith("union-branch"):
        return C13_KNOWN[("undefined-type", "union-branch")]
    if klass == "const-not-assignable" and any(x in site for x in ("uint8 = 256", "int16 = 40000", "uint8 = -1")):
        return C13_KNOWN[("const-not-assignable", "out-of-range")]
    if klass == "const-not-assignable" and site.startswith("date"):
        return None
    return None


def check_c13(tier, seed, replay=None):
    run, broken = base_run("C13", tier, seed,
        "valid generated schemas (no [flags] enums, so that the known C11 leak does not interfere) must be accepted by ReadFile + Validate, recursion through messages / unions / arrays included; "
        "each is then given ONE semantic error from each listed class at each kind of site (undefined type plain / in array / in map value / in array of map, in struct, message and union-branch "
        "fields; duplicate definition, field, enum-option names; duplicate enum values; duplicate message / union indices; index 0; duplicate opcodes numeric and 4-char; enum value outside its "
        "base type; const not assignable; definition named like a primitive; struct containing itself directly, through another struct, and through a cycle entered from outside) and must be "
        "rejected; the extracted validator model's verdict is compared on every text",
        "props/C13.v", ["C13_partial", "C13_sound", "C13_recursion", "C13_indices", "C13_enum_range", "C13_accepted", "C13_prims"])
    rng = SplitMix64(seed).fork("C13")
    n = 500 if tier == "thorough" else 120
    asts = gen_asts(rng, n, flags_enums=False, imports=False)
    # richer bases so that every injection has a site
    for i in range(n // 3):
        g = frontgen.AstGen(rng.fork("rich%d" % i), flags_enums=False, imports=False)
        items = []
        for mk in (g.struct, g.struct, g.struct, g.message, g.enum, g.union, g.message):
            it = mk()
            if it["kind"] == "enum":
                g.enums.append(it["name"])
            else:
                g.records.append(it["name"])
            items.append(it)
        allrec = list(g.records)
        for it in items:
            if it["kind"] in ("struct", "message") and len(it["fields"]) < 2:
                # a struct may only be given references that cannot close a struct cycle: messages and unions
                g.records = [r for r in allrec if r[0] in "MU"] if it["kind"] == "struct" else allrec
                it["fields"] = g.fields(2, it["kind"] == "message")
        g.records = allrec
        asts.append(items)
    # valid recursion that must be accepted
    valid_extra = ["message M { 1 -> M next; 2 -> M[] kids; }\n", "union L { 1 -> struct Cons { uint32 head; L tail; } 2 -> struct Nil { } }\n",
                   "struct A { M m; }\nmessage M { 1 -> A a; }\n"]
    C = frontgen.Layout(canonical=True)
    cases = []      # (text, expect accept?, class, site)
    for items in asts:
        # drop references to records defined LATER? bebop allows forward references; keep
        # opcodes must be unique in a valid schema
        seen = set()
        for it in items:
            if it.get("opcode") is not None:
                if it["opcode"] in seen:
                    it["opcode"] = None
                seen.add(it.get("opcode"))
        cases.append((frontgen.render(items, C), True, "valid", ""))
        for klass, site, mut in inject(items, rng):
            cases.append((frontgen.render(mut, C), False, klass, site))
    for t in valid_extra:
        cases.append((t, True, "valid-recursion", ""))
    ops = ["VAL %s" % hexs(t) for t, _, _, _ in cases]
    gl, ml = both(ops)
    if isinstance(gl, BrokenTie):
        run.violation({"what": "the front-end harness no longer builds against /repo", "detail": str(gl)}, no_input=True)
        run.finish()
    found = False
    tally = {}
    for (txt, accept, klass, site), op, g, m in zip(cases, ops, gl, ml):
        run.nontrivial(txt)
        tally["%s:%s" % (klass, g)] = tally.get("%s:%s" % (klass, g), 0) + 1
        bad = None
        if accept and g != "accept":
            bad = "a valid schema is not accepted (%s)" % g
        elif not accept and g == "accept":
            bad = "a schema with a semantic error (%s at %s) is accepted" % (klass, site)
        elif g != m:
            bad = "implementation (%s) and validator model (%s) disagree" % (g, m)
        if bad:
            kk = c13_known_key(klass, site) if (not accept and g == "accept" and m == "accept") else None
            if kk and run.known(kk[0], kk[1]):
                continue
            found = True
            if len(run.violations) < 4:
                run.violation({"what": bad, "class": klass, "site": site, "text": txt, "impl": g, "model": m, "op": op[:3000]})
    run.count("evaluations", len(cases))
    run.notes["verdicts_by_class"] = tally
    for (txt, accept, klass, site), g in list(zip(cases, gl))[:: max(1, len(cases) // 5)][:5]:
        run.sample({"class": klass, "site": site, "text": txt[:200], "verdict": g})
    finish(run, "C13", broken, found)


# =============================================================================== C16 / C17
def fmt_known(items, txt):
    """which of the four formatter defects of the first rounds this text could trigger (all repaired: none is a listed finding any more, so a recurrence alarms)"""
    keys = []
    if re.search(r"\bimport\b", txt):
        keys.append(("C16/import-lines-dropped", "Format has no case for import: the lines are deleted from the output"))
    if re.search(r"enum\s+\w+\s*:", txt):
        keys.append(("C16/typed-enum-header-mangled", "the header `enum E : uint8 {` is emitted over two lines in a form that does not re-parse"))
    if "[flags]" in txt:
        keys.append(("C16/flags-attribute-and-expressions-mangled", "[flags] is treated as a five-token opcode and expression-valued members break the `ident = number ;` assumption (also the only non-idempotent outputs)"))
    if re.search(r"\]\s*\[\s*\]", txt):
        keys.append(("C16/repeated-array-suffix-mangled", "a second [] suffix derails the field"))
    return keys


def check_fmt(pid, tier, seed, replay=None):
    rule = ("accepted schema texts = generated ASTs (every construct) under the canonical and random permitted layouts (incl. T[][] spellings) + every valid .bop under testdata; "
            "Format must terminate without error; " +
            ("ReadFile(Format(x)) must be accepted and equal ReadFile(x) with doc comments erased" if pid == "C16" else "Format(Format(x)) must equal Format(x) byte for byte") +
            "; the extracted formatter model's output is compared byte for byte on every text; distinct = distinct texts")
    run, broken = base_run(pid, tier, seed, rule, "props/%s.v" % pid, ["%s_partial" % pid, "%s_structs" % pid, "%s_records" % pid, "%s_schema" % pid] + ["%s_schema_iter" % pid])
    run.cov["explanation"] = ("partial: proved are that Format panics on no input and the instances of the statement on the four texts that were mangled before the formatter was repaired "
                              "(%s_partial, coq/props/%s.v); the general statement needs the inversion of the tokenizer on the formatter's output and is decided by this run: "
                              "the property evaluated on the implementation, and the formatter model compared byte for byte" % (pid, pid))
    rng = SplitMix64(seed).fork("FMT")
    n = 700 if tier == "thorough" else 180
    texts = []
    for items in gen_asts(rng, n):
        for L in [frontgen.Layout(canonical=True), frontgen.Layout(rng)]:
            t = frontgen.render(items, L)
            if rng.below(4) == 0:
                t = t.replace("array[int32[]]", "int32[][]").replace("array[string[]]", "string[][]")
            texts.append((items, t))
        # end-of-line comments after fields / members / headers (not a layout C11's expected dump covers: comment attachment is compared with the model only)
        texts.append((items, frontgen.decorate(frontgen.render(items, frontgen.Layout(canonical=True)), rng)))
        # comment lines between an attribute line and what it decorates (round 8: a formatter hoisting one comment per pass over [deprecated])
        ta = frontgen.decorate_attr(frontgen.render(items, frontgen.Layout(canonical=True)), rng)
        if ta != texts[-1][1]:
            texts.append((items, ta))
    # the first four are the texts that were mangled before the repairs (front/FmtFacts.v proves the instances on the model)
    for extra in ["enum E : uint8 { A = 1; }\n", "import \"a.bop\"\nstruct A { int32 a; }\n", "[flags]\nenum F { A = 1; B = A | 2; }\n",
                  "struct A { int32[][] grid; }\n", "struct A { array[array[int32]] g; map[string, map[int32, string[]]] m; }\n"]:
        texts.append(([], extra))
    for name, b in testdata_files():
        texts.append((None, b.decode("latin1")))
    ops = ["READ -1 %s" % hexs(t) for _, t in texts]
    gl, ml = both(ops)
    if isinstance(gl, BrokenTie):
        run.violation({"what": "the front-end harness no longer builds against /repo", "detail": str(gl)}, no_input=True)
        run.finish()
    acc = [(items, t, g) for (items, t), g in zip(texts, gl) if cls(g) == "OK"]
    fops = ["FMT %s" % hexs(t) for _, t, _ in acc]
    fg, fm = both(fops)
    found = False
    n_eval = 0
    second = []
    for (items, t, g0), op, g, m in zip(acc, fops, fg, fm):
        n_eval += 1
        run.nontrivial(t)
        bad = None
        if not g.startswith("OK"):
            bad = "Format of an accepted text: %s" % g[:100]
        elif g != m:
            bad = "implementation and formatter model disagree"
        if bad:
            found = True
            if len(run.violations) < 3:
                run.violation({"what": bad, "text": t, "impl": g[:600], "model": m[:600], "op": op[:3000]})
            continue
        second.append((items, t, g0, bytes.fromhex(g[3:].strip()) if len(g) > 3 else b""))
    if pid == "C16":
        ops2 = ["READ -1 %s" % hexs(out) for _, _, _, out in second]
    else:
        ops2 = ["FMT %s" % hexs(out) for _, _, _, out in second]
    g2 = frontrun.run_go(ops2)
    for (items, t, g0, out), op, g in zip(second, ops2, g2):
        n_eval += 1
        bad = None
        if pid == "C16":
            if cls(g) != "OK":
                bad = "the formatter's output is no longer accepted by ReadFile (%s)" % g[:60]
            elif strip_comments(g) != strip_comments(g0):
                bad = "the formatter's output denotes a different schema"
        else:
            if not g.startswith("OK") or (bytes.fromhex(g[3:].strip()) if len(g) > 3 else b"") != out:
                bad = "Format(Format(x)) differs from Format(x)"
        if bad:
            known = False
            for key, what in fmt_known(items, t):
                k2 = key if pid == "C16" else key.replace("C16/", "C17/")
                if run.known(k2, what):
                    known = True
                    break
            if known:
                continue
            found = True
            if len(run.violations) < 5:
                run.violation({"what": bad, "text": t, "formatted": out.decode("latin1"), "second_pass": g[:800], "before": g0[:800], "op": op[:3000]})
        if n_eval % 157 == 0:
            run.sample({"text": t[:200], "formatted": out.decode("latin1")[:200]})
    run.count("evaluations", n_eval)
    run.notes["accepted_texts"] = len(acc)
    finish(run, pid, broken, found)
