import front


def check(tier, seed, replay=None):
    front.check_c11(tier, seed, replay)
