import front


def check(tier, seed, replay=None):
    front.check_fmt("C16", tier, seed, replay)
