import front


def check(tier, seed, replay=None):
    front.check_c10(tier, seed, replay)
