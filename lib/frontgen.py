# Schema ASTs, their text under the permitted layouts, and the File dump each must parse to (C11, C13, C16, C17, C15).
# The dump format is the canonical one printed by go/cmd/fexec and ocaml/front_driver.ml.
from vcommon import SplitMix64

PRIMS = ["bool", "byte", "uint8", "uint16", "int16", "uint32", "int32", "uint64", "int64", "float32", "float64", "string", "guid", "date"]
ENUM_BASES = {"byte": (8, False), "uint8": (8, False), "uint16": (16, False), "uint32": (32, False), "uint64": (64, False),
              "int16": (16, True), "int32": (32, True), "int64": (64, True)}


def wrap(v, bits, signed):
    """the value of v in a Go integer type of the given width (two's complement wrap)"""
    v &= (1 << bits) - 1
    if signed and v >> (bits - 1):
        v -= 1 << bits
    return v


def hx(s):
    return s.encode().hex() if isinstance(s, str) else bytes(s).hex()


# ---- types: ('s', name) | ('a', t) | ('m', key, t)
def ty_text(t, style=0):
    if t[0] == "s":
        return t[1]
    if t[0] == "a":
        if style == 0 and t[1][0] == "s":
            return ty_text(t[1], style) + "[]"
        return "array[" + ty_text(t[1], style) + "]"
    return "map[" + t[1] + ("," if style == 2 else ", ") + ty_text(t[2], style) + "]"


def ty_dump(t):
    if t[0] == "s":
        return "S:" + hx(t[1])
    if t[0] == "a":
        return "A(" + ty_dump(t[1]) + ")"
    return "M(" + hx(t[1]) + "," + ty_dump(t[2]) + ")"


class Layout:
    """one permitted layout of the text"""

    def __init__(self, rng=None, canonical=False):
        if canonical or rng is None:
            self.nl, self.ind, self.sp, self.blank, self.oneline, self.tystyle, self.arrow, self.semi_sp = "\n", "    ", " ", 1, False, 0, " -> ", ""
            self.trail_nl = True
            self.attr_gap = False
            return
        self.nl = rng.choice(["\n", "\n", "\r\n"])
        self.ind = rng.choice(["", " ", "    ", "\t", "\t\t "])
        self.sp = rng.choice([" ", " ", "  ", "\t", " \t "])
        self.blank = rng.below(3)
        self.oneline = rng.below(3) == 0
        self.tystyle = rng.below(3)
        self.arrow = rng.choice([" -> ", "->", " ->", "-> ", "  ->\t"])
        self.semi_sp = rng.choice(["", "", " "])
        self.trail_nl = rng.below(4) != 0
        # a blank line between an [opcode(..)] / [flags] line and the definition it belongs to (round 8: a bare newline token that drops the
        # pending attribute).  Only on definitions without a doc comment: a blank line does detach a pending comment, by design of ReadFile.
        self.attr_gap = rng.below(3) == 0


def comment_lines(c, L, ind):
    """a doc comment as // lines directly above the item"""
    if c is None:
        return ""
    return "".join(ind + "//" + line + L.nl for line in c.split("\n"))


def render(items, L):
    out = []
    for it in items:
        k = it["kind"]
        pre = comment_lines(it.get("comment"), L, "")
        if it.get("opcode") is not None:
            pre += "[opcode(%s)]" % it["opcode_text"] + L.nl + (L.nl if L.attr_gap and it.get("comment") is None else "")
        if k == "import":
            out.append('import%s"%s"' % (L.sp, it["path"]) + L.nl)
            continue
        if k == "const":
            out.append(pre + "const%s%s%s%s%s=%s%s%s;" % (L.sp, it["type"], L.sp, it["name"], L.sp, L.sp, it["text"], L.semi_sp) + L.nl)
            continue
        if k == "enum":
            hdr = ("[flags]" + L.nl + (L.nl if L.attr_gap and it.get("comment") is None else "") if it["flags"] else "") + "enum" + L.sp + it["name"] + ((L.sp + ":" + L.sp + it["base"]) if it["base_explicit"] else "") + L.sp + "{"
            body = []
            for m in it["members"]:
                s = comment_lines(m.get("comment"), L, L.ind) if not L.oneline else ""
                if m.get("dep") is not None:
                    s += L.ind + '[deprecated("%s")]' % m["dep"] + (L.nl if not L.oneline else " ")
                s += (L.ind if not L.oneline else "") + m["name"] + L.sp + "=" + L.sp + m["text"] + L.semi_sp + ";"
                body.append(s)
        elif k == "struct":
            hdr = ("readonly" + L.sp if it["readonly"] else "") + "struct" + L.sp + it["name"] + L.sp + "{"
            body = []
            for f in it["fields"]:
                s = comment_lines(f.get("comment"), L, L.ind) if not L.oneline else ""
                if f.get("dep") is not None:
                    s += L.ind + '[deprecated("%s")]' % f["dep"] + (L.nl if not L.oneline else " ")
                s += (L.ind if not L.oneline else "") + ty_text(f["type"], L.tystyle) + L.sp + f["name"] + L.semi_sp + ";"
                body.append(s)
        elif k == "message":
            hdr = "message" + L.sp + it["name"] + L.sp + "{"
            body = []
            for f in it["fields"]:
                s = comment_lines(f.get("comment"), L, L.ind) if not L.oneline else ""
                if f.get("dep") is not None:
                    s += L.ind + '[deprecated("%s")]' % f["dep"] + (L.nl if not L.oneline else " ")
                s += (L.ind if not L.oneline else "") + str(f["index"]) + L.arrow + ty_text(f["type"], L.tystyle) + L.sp + f["name"] + L.semi_sp + ";"
                body.append(s)
        elif k == "union":
            hdr = "union" + L.sp + it["name"] + L.sp + "{"
            body = []
            for b in it["branches"]:
                # the member's doc comment lines stand before its `N ->` line (and before a deprecation line)
                bare = dict(b["def"], comment=None)
                inner = render([bare], Layout(canonical=True)).strip("\n")
                inner = inner.replace("\n", L.nl + L.ind)
                s = comment_lines(b["def"].get("comment"), L, L.ind)
                if b.get("dep") is not None:
                    s += L.ind + '[deprecated("%s")]' % b["dep"] + L.nl
                s += L.ind + str(b["disc"]) + L.arrow + inner
                body.append(s)
        if L.oneline and k != "union":
            text = hdr + " " + " ".join(body) + (" " if body else "") + "}"
        else:
            text = hdr + L.nl + "".join(b + L.nl for b in body) + "}"
        out.append(pre + text + L.nl)
    sep = L.nl * L.blank
    txt = sep.join(out)
    if not L.trail_nl:
        txt = txt.rstrip("\r\n")
    return txt


TRAILERS = [" // t", " //t", "\t/* b */", " /* b */ // t", " /**/", " /* two\n   lines */", "// t"]


def decorate(text, rng, p=3):
    """end-of-line comments after a ';' or '{' that ends a line: (1/p of those lines); the comment kinds a formatter or parser has to hand on to the next token"""
    nl = "\r\n" if "\r\n" in text else "\n"
    out = []
    for line in text.split(nl):
        st = line.rstrip(" \t")
        if st and st[-1] in ";{" and not st.lstrip().startswith("//") and rng.below(p) == 0:
            line = st + rng.choice(TRAILERS)
        out.append(line)
    return nl.join(out)


def decorate_attr(text, rng, p=2):
    """one to three `//` comment lines between an attribute line ([deprecated(..)], [opcode(..)], [flags]) and what it decorates (1/p of those
    lines): a formatter that reorders a comment and an attribute has to reach a fixed point in one pass (C17) and keep the File (C16).
    Texts the parser rejects in this form are dropped by the caller (only accepted texts are formatted)."""
    nl = "\r\n" if "\r\n" in text else "\n"
    out = []
    for line in text.split(nl):
        out.append(line)
        st = line.strip()
        if st.startswith("[") and st.endswith("]") and rng.below(p) == 0:
            ind = line[:len(line) - len(line.lstrip())]
            for k in range(1 + rng.below(3)):
                out.append(ind + "// " + rng.choice(["after the attribute", "use x instead", "went away in v2", "@tag(\"a\")"]) + " %d" % k)
    return nl.join(out)


def effective(items, L):
    """the AST the text of layout L actually states: one-line bodies carry no per-field / per-member comments"""
    if not L.oneline:
        return items
    import copy
    c = copy.deepcopy(items)
    for it in c:
        for key in ("fields", "members"):
            if it["kind"] != "union":
                for f in it.get(key, []):
                    f["comment"] = None
                    f.pop("tags", None)
    return c


def opcode_value(it):
    return it["opcode"] if it.get("opcode") is not None else 0


def expected_dump(items):
    """the canonical File dump (list of lines) the text must parse to"""
    out = []
    imports = [hx(it["path"]) for it in items if it["kind"] == "import"]
    gp = ""
    for it in items:
        if it["kind"] == "const" and it["name"] == "go_package" and it["type"] == "string":
            gp = it["text"][1:-1]
    out.append("imports " + ",".join(imports))
    out.append("gopackage " + hx(gp))

    def cm(x):
        return hx(x.get("comment") or "")

    def field(pre, f):
        tags = ",".join("%s:%s:%s" % (hx(k), hx(v), "true" if b else "false") for k, v, b, _ in f.get("tags", []))
        out.append("%sfield %s c=%s dm=%s d=%s %s [%s]" % (pre, hx(f["name"]), cm(f), hx(f.get("dep") or ""), "true" if f.get("dep") is not None else "false", ty_dump(f["type"]), tags))

    def struct(pre, it):
        out.append("%sstruct %s c=%s op=%d ro=%s" % (pre, hx(it["name"]), cm(it), opcode_value(it), "true" if it.get("readonly") else "false"))
        for f in it["fields"]:
            field(pre + " ", f)

    def message(pre, it):
        out.append("%smessage %s c=%s op=%d" % (pre, hx(it["name"]), cm(it), opcode_value(it)))
        for f in sorted(it["fields"], key=lambda f: f["index"]):
            out.append("%s idx %d" % (pre, f["index"]))
            field(pre + " ", f)
    for it in items:
        if it["kind"] == "struct":
            struct("", it)
    for it in items:
        if it["kind"] == "message":
            message("", it)
    for it in items:
        if it["kind"] == "enum":
            bits, signed = ENUM_BASES[it["base"]]
            out.append("enum %s c=%s t=%s u=%s" % (hx(it["name"]), cm(it), hx(it["base"]), "false" if signed else "true"))
            for m in it["members"]:
                v = m["value"]
                out.append(" opt %s c=%s dm=%s d=%s v=%d uv=%d" % (hx(m["name"]), cm(m), hx(m.get("dep") or ""), "true" if m.get("dep") is not None else "false",
                                                                    v if signed else 0, 0 if signed else v))
    for it in items:
        if it["kind"] == "union":
            out.append("union %s c=%s op=%d" % (hx(it["name"]), cm(it), opcode_value(it)))
            for b in sorted(it["branches"], key=lambda b: b["disc"]):
                btags = ",".join("%s:%s:%s" % (hx(k), hx(v), "true" if bl else "false") for k, v, bl, _ in b.get("tags", []))
                out.append(" idx %d dm=%s d=%s [%s]" % (b["disc"], hx(b.get("dep") or ""), "true" if b.get("dep") is not None else "false", btags))
                if b["def"]["kind"] == "message":
                    message("  ", b["def"])
                else:
                    struct("  ", b["def"])
    for it in items:
        if it["kind"] == "const":
            out.append("const %s c=%s t=%s v=%s" % (hx(it["name"]), cm(it), hx(it["type"]), hx(it["value_text"])))
    return out


# ---------------------------------------------------------------- random ASTs
class AstGen:
    def __init__(self, rng, comments=True, flags_enums=True, imports=True):
        self.rng, self.n = rng, 0
        self.comments, self.flags_enums, self.imports = comments, flags_enums, imports
        self.records, self.enums = [], []

    def name(self, pfx):
        self.n += 1
        return "%s%d" % (pfx, self.n)

    def comment(self):
        r = self.rng
        if not self.comments or r.below(3):
            return None
        return r.choice([" doc", " two words", "tight", " a\n b", " x = 1; struct {", " [not a tag]", " trailing space ",
                         # empty comment lines (a bare `//`) at the start, the end and in the middle of a doc comment: they are lines of it like any other
                         "\n lead", " trail\n", " a\n\n b", "\n", ""])

    def ty(self, depth=0):
        r = self.rng
        k = r.below(10)
        if k < 5 or depth > 2:
            pool = PRIMS + [e for e in self.enums] + [x for x in self.records]
            return ("s", r.choice(pool))
        if k < 8:
            return ("a", self.ty(depth + 1))
        return ("m", r.choice(PRIMS), self.ty(depth + 1))

    def opcode(self, it):
        r = self.rng
        k = r.below(4)
        if k == 0:
            v = 1 + r.next() % 0xFFFFFFFE
            it["opcode"], it["opcode_text"] = v, r.choice(["0x%x" % v, str(v), "0x%X" % v])
        elif k == 1:
            s = "".join(r.choice("ABCDxyz019_") for _ in range(4))
            it["opcode"], it["opcode_text"] = int.from_bytes(s.encode(), "little"), '"%s"' % s
        else:
            it["opcode"] = None

    def fields(self, n, message=False):
        r = self.rng
        out = []
        used = set()
        idxs = sorted(r.below(255) + 1 for _ in range(n))
        for j in range(n):
            f = {"type": self.ty(), "name": self.name("f"), "comment": self.comment()}
            if self.comments and r.below(3) == 0:
                # field tags are written as comment lines of a fixed shape; they also stay part of the doc comment
                tags = []
                for _ in range(1 + r.below(2) if r.below(3) else 3 + r.below(2)):     # now and then enough tags for a key to repeat before another one
                    if r.below(3) == 0:
                        key = r.choice(["omitempty", "flag", "x"])
                        tags.append((key, "", True, "[tag(%s)]" % key))
                    else:
                        key = r.choice(["json", "db", "yaml"])
                        val = r.choice(["name", "a,omitempty", "more colons::", "f%d" % self.n])
                        tags.append((key, val, False, '[tag(%s:"%s")]' % (key, val)))
                f["tags"] = tags
                lines = ([f["comment"]] if f["comment"] is not None else []) + [t[3] for t in tags]
                f["comment"] = "\n".join(lines)
            if r.below(5) == 0:
                f["dep"] = r.choice(["old", "", "use other", "a \\\"quoted\\\" word"]) if False else r.choice(["old", "", "use other"])
            if message:
                i = idxs[j]
                while i in used:
                    i = i % 255 + 1
                used.add(i)
                f["index"] = i
            out.append(f)
        if message and r.below(2):
            r_ = out[:]
            out = r_[::-1] if r.below(2) else r_      # indices need not be written in ascending order
        return out

    def struct(self, nameable=True):
        it = {"kind": "struct", "name": self.name("S"), "readonly": self.rng.below(4) == 0, "fields": self.fields(self.rng.below(4)), "comment": self.comment()}
        self.opcode(it)
        return it

    def message(self):
        it = {"kind": "message", "name": self.name("M"), "fields": self.fields(self.rng.below(4), True), "comment": self.comment()}
        self.opcode(it)
        return it

    def enum(self):
        r = self.rng
        base = r.choice(list(ENUM_BASES))
        explicit = r.below(3) > 0
        if not explicit:
            base = "uint32"
        bits, signed = ENUM_BASES[base]
        flags = self.flags_enums and r.below(3) == 0
        it = {"kind": "enum", "name": self.name("E"), "base": base, "base_explicit": explicit, "flags": flags, "members": [], "comment": self.comment()}
        vals = set()
        names = []
        for j in range(1 + r.below(4)):
            lo, hi = (-(1 << (bits - 1)), (1 << (bits - 1)) - 1) if signed else (0, (1 << bits) - 1)
            m = {"name": self.name("K"), "comment": self.comment()}
            if flags and r.below(3):
                # an expression tree over literals and earlier members in the enum's width-typed arithmetic, fully parenthesised
                # so that its meaning does not depend on operator precedence
                m["text"], m["value"] = self.flag_expr(names, bits, signed, 1 + r.below(3), top=True)
            elif flags:
                sh = r.below(min(bits - 1, 30))
                m["text"], m["value"] = "1 << %d" % sh, wrap(1 << sh, bits, signed)
            else:
                v = r.choice([lo, hi, 0, 1, 2, 7, 255 if hi >= 255 else 3]) if r.below(2) else lo + r.next() % (hi - lo + 1)
                tries = 0
                while v in vals and tries < 50:
                    v = lo + r.next() % (hi - lo + 1)
                    tries += 1
                m["text"] = ("0x%x" % v) if (v >= 0 and r.below(3) == 0) else str(v)
                m["value"] = v
            if m["value"] in vals:      # duplicate option values are rejected by Validate
                continue
            vals.add(m["value"])
            if r.below(6) == 0:
                m["dep"] = "gone"
            names.append((m["name"], m["value"]))
            it["members"].append(m)
        it["opcode"] = None
        return it

    def flag_expr(self, names, bits, signed, depth, top=False):
        r = self.rng
        if depth == 0 or r.below(4) == 0:
            if names and r.below(2):
                n = r.choice(names)
                return n[0], n[1]
            lo, hi = (0, (1 << (bits - 1)) - 1) if signed else (0, (1 << bits) - 1)
            v = r.choice([0, 1, 2, 3, 0xF0, hi, hi >> 1, 1 << (bits - 2)]) if r.below(2) else r.next() % (hi + 1)
            return (("0x%x" % v) if r.below(2) else str(v)), v
        op = r.choice(["|", "&", "<<", ">>", "|", "<<"])
        at, av = self.flag_expr(names, bits, signed, depth - 1)
        if op in ("<<", ">>"):
            k = r.below(bits + 2)
            bt, bv = str(k), k
        else:
            bt, bv = self.flag_expr(names, bits, signed, depth - 1)
        if op == "|":
            v = av | bv
        elif op == "&":
            v = av & bv
        elif op == "<<":
            v = (av << bv) if bv < 256 else 0
        else:
            v = av >> bv
        v = wrap(v, bits, signed)
        txt = "%s %s %s" % (at, op, bt)
        return (txt if top else "(" + txt + ")"), v

    def const(self):
        r = self.rng
        t = r.choice(["int32", "uint8", "int64", "uint64", "float32", "float64", "string", "bool", "guid", "uint16", "int16", "byte", "uint32"])
        it = {"kind": "const", "type": t, "name": self.name("c"), "comment": self.comment(), "opcode": None}
        if t in ENUM_BASES:
            bits, signed = ENUM_BASES[t]
            lo, hi = (-(1 << (bits - 1)), (1 << (bits - 1)) - 1) if signed else (0, (1 << bits) - 1)
            v = r.choice([lo, hi, 0, 1]) if r.below(2) else lo + r.next() % (hi - lo + 1)
            it["text"] = ("0x%x" % v) if (v >= 0 and r.below(3) == 0) else str(v)
            it["value"] = v
        elif t.startswith("float"):
            it["text"] = r.choice(["1.5", "-0.25", "3", "inf", "-inf", "nan", "0.0", "123456.789"])
        elif t == "string":
            fixed = ["hello", "", "tab\\there", "q\\\"uote", "back\\\\slash", "nl\\nx", "unié",
                     "100% sure", "%d of %s items", "50%% off", "%", "%!", "%v%", "`tick`", "$x {y} [z]", "a/*b*/c", "//not a comment", "semi;colon", "\\\\%d\\n"]
            if r.below(3) == 0:
                # any printable ASCII except the two bytes that need escaping
                body = "".join(chr(r.choice([c for c in range(32, 127) if c not in (34, 92)])) for _ in range(r.below(12)))
            else:
                body = r.choice(fixed)
            it["text"] = '"' + body + '"'
        elif t == "bool":
            it["text"] = r.choice(["true", "false"])
        else:
            it["text"] = '"' + r.choice(["e215a946-b26f-4567-a276-13136f0a1708", "00000000-0000-0000-0000-000000000000", "e215a946b26f4567a27613136f0a1708"]) + '"'
        it["value_text"] = {"inf": "math.Inf(1)", "-inf": "math.Inf(-1)", "nan": "math.NaN()"}.get(it["text"], it["text"])
        return it

    def union(self):
        r = self.rng
        it = {"kind": "union", "name": self.name("U"), "branches": [], "comment": self.comment()}
        self.opcode(it)
        used = set()
        for j in range(1 + r.below(3)):
            d = r.below(255) + 1
            while d in used:
                d = d % 255 + 1
            used.add(d)
            sub = AstGen(r, comments=False)
            sub.n = self.n + 100 * (j + 1)
            sub.records, sub.enums = self.records, self.enums
            bd = sub.message() if r.below(2) else sub.struct()
            bd["comment"], bd["opcode"] = (self.comment() if self.comments and r.below(3) == 0 else None), None
            bd["readonly"] = False
            for f in bd["fields"]:
                f["comment"] = None
                f.pop("tags", None)
            b = {"disc": d, "def": bd}
            if self.comments and r.below(4) == 0:
                # tags of a union member: comment lines of the fixed shape before it; they stay part of the member's doc comment
                tags = []
                for _ in range(1 + r.below(2)):
                    if r.below(3) == 0:
                        key = r.choice(["omitempty", "flag"])
                        tags.append((key, "", True, "[tag(%s)]" % key))
                    else:
                        key = r.choice(["json", "db"])
                        val = r.choice(["name", "a,omitempty", "b%d" % self.n])
                        tags.append((key, val, False, '[tag(%s:"%s")]' % (key, val)))
                b["tags"] = tags
                lines = ([bd["comment"]] if bd["comment"] is not None else []) + [t[3] for t in tags]
                bd["comment"] = "\n".join(lines)
            if r.below(6) == 0:
                b["dep"] = "old branch"
            it["branches"].append(b)
            self.n = sub.n
        return it

    def file(self, n_items):
        r = self.rng
        items = []
        if self.imports and r.below(4) == 0:
            items.append({"kind": "import", "path": r.choice(["other.bop", "./dir/x.bop", "a b.bop"])})
        for _ in range(n_items):
            k = r.below(10)
            if k < 3:
                it = self.struct()
                self.records.append(it["name"])
            elif k < 5:
                it = self.message()
                self.records.append(it["name"])
            elif k < 7:
                it = self.enum()
                self.enums.append(it["name"])
            elif k < 8:
                it = self.union()
                self.records.append(it["name"])
            else:
                it = self.const()
            items.append(it)
        return items


def defined_names(items):
    return [it["name"] for it in items if it["kind"] in ("struct", "message", "union", "enum")]


def flags_leak(items):
    """does a [flags] enum precede a definition that is not an enum? (the attribute is never cleared: known finding)"""
    seen = False
    for it in items:
        if it["kind"] == "enum" and it["flags"]:
            seen = True
        elif seen and it["kind"] in ("struct", "message", "union", "const"):
            return True
    return False
