# C15: constants, enum members and opcodes carry the schema's values into Go: the generated package is compiled and run.
import re, os, shutil, codecs
from vcommon import *
import frontgen, wirerun
from frontgen import ENUM_BASES, wrap

KNOWN = {
    "prec": ("C15/flag-expression-without-precedence", "[flags] expressions are parsed right-recursively with no operator precedence: `1 << 1 | 2` is 1 << (1 | 2) = 8 (any C-family precedence gives 2), `8 >> 1 & 3` is 4 rather than 0"),
    "octal": ("C15/leading-zero-literal-is-octal", "an integer literal with a leading zero is read as octal both for enum values and in the Go source (`010` is 8)"),
}


def go_string(text):
    """the value of a Go / bebop interpreted string literal with simple escapes"""
    return codecs.decode(text[1:-1].encode("latin1", "backslashreplace"), "unicode_escape")


def check(tier, seed, replay=None):
    run = Run("C15", tier, seed)
    run.cov["rule"] = ("one generated schema per batch: consts of every type and literal form (decimal / hex / negative / 64-bit boundaries, floats incl. inf / nan, strings with escapes, bools, guids), "
                       "plain enums over all 8 base types with boundary and random values, [flags] enums with fully parenthesised expression trees (| & << >> over literals and earlier members, "
                       "depth <= 3, incl. shifts that overflow the base type followed by >>), structs / messages / unions with numeric and 4-character opcodes; the package the current generator emits "
                       "(and integer opcode literals at and beyond 2^32, which must be rejected or carried exactly) is compiled with a main that prints every constant (typed conversion to the declared type, reflect for the enum's type name and kind); printed values are compared with the "
                       "schema's values computed independently (width-typed two's complement arithmetic); distinct = distinct constants")
    run.cov["trusted_base"] = TRUSTED_BASE_COMMON + ["the Go compiler's reading of the emitted literals is the observable; Python's width-typed evaluation of the parenthesised flag expressions is the oracle"]
    broken = None
    try:
        run_translator("t2", [os.path.join(REPO, "primitive.go"), os.path.join(REPO, "gen_templates.go")], "gen/Tables.v", "T2(primitive.go, gen_templates.go)")
        proof_step(run, "props/C15.v", ["C15_partial", "C15_widths"])
    except BrokenTie as e:
        broken = e
    rng = SplitMix64(seed).fork("C15")
    found = False
    nbatches = 6 if tier == "thorough" else 2
    total = 0
    d = os.path.join(WORK, "c15-%d" % os.getpid())
    try:
        bgen = wirerun.bgen_bin()
    except BrokenTie as e:
        run.violation({"what": "the generator harness no longer builds against /repo", "detail": str(e)}, no_input=True)
        run.finish()
    try:
        for batch in range(nbatches):
            g = frontgen.AstGen(rng.fork("b%d" % batch), comments=False, imports=False)
            items, expect = [], []       # expect: (go expr, expected printed string, description)
            # consts
            for _ in range(120):
                c = g.const()
                items.append(c)
                name = c["name"][0].upper() + c["name"][1:]
                t = c["type"]
                if t in ENUM_BASES:
                    bits, signed = ENUM_BASES[t]
                    gt = {"byte": "uint8"}.get(t, t)
                    expect.append(('fmt.Sprint(%s(pkg.%s))' % (gt, name), str(c["value"]), "const %s %s = %s" % (t, c["name"], c["text"])))
                elif t.startswith("float"):
                    bitsf = "math.Float64bits(float64(pkg.%s))" % name
                    import struct as _st
                    val = {"inf": float("inf"), "-inf": float("-inf"), "nan": float("nan")}.get(c["text"], None)
                    if val is None:
                        val = float(c["text"])
                    if c["text"] == "nan":
                        expect.append(('fmt.Sprint(math.IsNaN(float64(pkg.%s)))' % name, "true", "const %s %s = nan" % (t, c["name"])))
                    else:
                        expect.append(('fmt.Sprint(%s)' % bitsf, str(_st.unpack("<Q", _st.pack("<d", val))[0]), "const %s %s = %s" % (t, c["name"], c["text"])))
                elif t == "string" or t == "guid":
                    expect.append(('fmt.Sprintf("%%x", string(pkg.%s))' % name, go_string(c["text"]).encode("utf8").hex(), "const %s %s = %s" % (t, c["name"], c["text"])))
                elif t == "bool":
                    expect.append(('fmt.Sprint(bool(pkg.%s))' % name, c["text"], "const bool %s = %s" % (c["name"], c["text"])))
            # records with opcodes
            for _ in range(40):
                it = g.struct() if rng.below(2) else g.message()
                it["fields"] = [] if it["kind"] == "struct" else it["fields"]
                if it["kind"] == "message":
                    for f in it["fields"]:
                        f["type"] = ("s", "int32")
                g.records.append(it["name"])
                if it.get("opcode") is not None and any(x.get("opcode") == it["opcode"] for x in items):
                    it["opcode"] = None
                items.append(it)
                if it.get("opcode") is not None:
                    expect.append(('fmt.Sprint(uint32(pkg.%sOpCode))' % it["name"], str(it["opcode"]), "opcode %s of %s" % (it["opcode_text"], it["name"])))
            # enums: plain first, [flags] last (the attribute is never cleared: known C11 finding)
            enums = [g.enum() for _ in range(150)]
            # targeted flag expressions: overflow of the base type followed by a right shift, sign bit, full-width shifts
            for base, (bits, signed) in ENUM_BASES.items():
                e = {"kind": "enum", "name": g.name("E"), "base": base, "base_explicit": True, "flags": True, "members": [], "comment": None, "opcode": None}
                all_ = wrap(0xF3, bits, signed)
                ms = [("All", "0xF3", all_), ("Sh", "(All << %d) >> 2" % (bits - 4), wrap(wrap(all_ << (bits - 4), bits, signed) >> 2, bits, signed)),
                      ("Ov", "(1 << %d) >> 2" % (bits + 1), 0), ("Sg", "(1 << %d) >> %d" % (bits - 1, bits - 2), wrap(wrap(1 << (bits - 1), bits, signed) >> (bits - 2), bits, signed)),
                      ("Mix", "((All | 1) << 3) & (0xF0 | (All >> 1))", wrap(wrap((all_ | 1) << 3, bits, signed) & (0xF0 | (all_ >> 1)), bits, signed))]
                seenv = set()
                for nm, tx, v in ms:
                    if v in seenv:
                        continue
                    seenv.add(v)
                    e["members"].append({"name": g.name(nm), "text": tx if nm != "All" else tx, "value": v})
                # member references must use the generated names
                allname, = [m["name"] for m in e["members"] if m["name"].startswith("All")]
                for m in e["members"]:
                    m["text"] = m["text"].replace("All", allname) if not m["name"].startswith("All") else m["text"]
                enums.append(e)
            enums.sort(key=lambda e: e["flags"])
            for e in enums:
                items.append(e)
                bits, signed = ENUM_BASES[e["base"]]
                gt = {"byte": "uint8"}.get(e["base"], e["base"])
                for m in e["members"]:
                    conv = "int64" if signed else "uint64"
                    expect.append(('fmt.Sprintf("%%v %%v %%v", %s(pkg.%s_%s), reflect.TypeOf(pkg.%s_%s).Name(), reflect.TypeOf(pkg.%s_%s).Kind())' % (conv, e["name"], m["name"], e["name"], m["name"], e["name"], m["name"]),
                                   "%d %s %s" % (m["value"], e["name"], gt), "%senum %s : %s member %s = %s" % ("[flags] " if e["flags"] else "", e["name"], e["base"], m["name"], m["text"])))
            txt = frontgen.render(items, frontgen.Layout(canonical=True))
            shutil.rmtree(d, ignore_errors=True)
            os.makedirs(os.path.join(d, "pkg"))
            open(os.path.join(d, "schema.bop"), "w").write(txt)
            rc, so, se = sh([bgen, os.path.join(d, "schema.bop"), os.path.join(d, "pkg", "gen.go"), "pkg", "0"], timeout=120)
            if rc != 0:
                found = True
                run.violation({"what": "the generator rejects the constants schema (stage %d): %s" % (rc, se[:400]), "schema": txt[:3000]})
                continue
            main = ['package main', '', 'import (', '\t"fmt"', '\t"math"', '\t"reflect"', '', '\t"wt/pkg"', ')', '', 'var _ = math.Pi', 'var _ = reflect.TypeOf', '', 'func main() {']
            for k, (expr, _, _) in enumerate(expect):
                main.append('\tfmt.Println(%d, %s)' % (k, expr))
            main.append('}')
            open(os.path.join(d, "main.go"), "w").write("\n".join(main) + "\n")
            open(os.path.join(d, "go.mod"), "w").write("module wt\n\ngo 1.21\n\nrequire github.com/200sc/bebop v0.0.0\n\nreplace github.com/200sc/bebop => %s\n" % REPO)
            rc, so, se = sh(["go", "run", "."], cwd=d, timeout=600)
            if rc != 0:
                found = True
                run.violation({"what": "the generated constants package does not build / run: " + se[:600], "schema": txt[:3000]})
                continue
            got = {}
            for ln in so.strip().split("\n"):
                k, _, v = ln.partition(" ")
                got[int(k)] = v
            for k, (expr, want, desc) in enumerate(expect):
                total += 1
                run.nontrivial(desc)
                if got.get(k) != want:
                    found = True
                    if len(run.violations) < 5:
                        run.violation({"what": "the Go constant does not carry the schema's value", "constant": desc, "go_value": got.get(k), "schema_value": want, "schema_file": txt[:200] + " ..."})
                if total % 251 == 0:
                    run.sample({"constant": desc, "go_value": got.get(k)})
        # the two documented deviations, as explicit cases
        txt = "[flags]\nenum P : uint32 { A = 1 << 1 | 2; B = 8 >> 1 & 3; }\n"
        open(os.path.join(d, "schema.bop"), "w").write(txt)
        for case, schema, expr, want in (("prec", "[flags]\nenum P : uint32 { A = 1 << 1 | 2; B = 8 >> 1 & 3; }\n", "fmt.Sprint(uint64(pkg.P_A), uint64(pkg.P_B))", "2 0"),
                                         ("octal", "enum O { A = 010; }\nconst int32 z = 010;\n", "fmt.Sprint(uint64(pkg.O_A), int64(pkg.Z))", "10 10")):
            shutil.rmtree(d, ignore_errors=True)
            os.makedirs(os.path.join(d, "pkg"))
            open(os.path.join(d, "schema.bop"), "w").write(schema)
            rc, so, se = sh([bgen, os.path.join(d, "schema.bop"), os.path.join(d, "pkg", "gen.go"), "pkg", "0"], timeout=120)
            total += 1
            if rc != 0:
                continue
            open(os.path.join(d, "main.go"), "w").write('package main\n\nimport (\n\t"fmt"\n\n\t"wt/pkg"\n)\n\nfunc main() { fmt.Println(%s) }\n' % expr)
            open(os.path.join(d, "go.mod"), "w").write("module wt\n\ngo 1.21\n\nrequire github.com/200sc/bebop v0.0.0\n\nreplace github.com/200sc/bebop => %s\n" % REPO)
            rc, so, se = sh(["go", "run", "."], cwd=d, timeout=300)
            if so.strip() != want and not run.known(*KNOWN[case]):
                found = True
                run.violation({"what": "constant values differ from the schema's", "schema": schema, "go_values": so.strip(), "expected": want})
        # values the Go constant cannot carry: the schema must be rejected, or else the constant must still print the schema's value
        # (an integer opcode is a uint32: 2^32 and beyond cannot be an opcode)
        for lit, val in (("4294967295", 4294967295), ("4294967296", 4294967296), ("4294967297", 4294967297), ("0x100000000", 1 << 32), ("0x131323334", 0x131323334),
                         ("8589934593", 8589934593), ("18446744073709551615", (1 << 64) - 1), ("0xffffffff", 0xffffffff)):
            for rec in ("struct A { int32 x; }", "message A { 1 -> int32 x; }", "union A { 1 -> struct B { int32 x; } }"):
                schema = "[opcode(%s)]\n%s\n" % (lit, rec)
                shutil.rmtree(d, ignore_errors=True)
                os.makedirs(os.path.join(d, "pkg"))
                open(os.path.join(d, "schema.bop"), "w").write(schema)
                rc, so, se = sh([bgen, os.path.join(d, "schema.bop"), os.path.join(d, "pkg", "gen.go"), "pkg", "0"], timeout=120)
                total += 1
                run.nontrivial("opcode literal %s on %s" % (lit, rec.split()[0]))
                if rc != 0:
                    if val < (1 << 32):
                        found = True
                        run.violation({"what": "a schema with a 32-bit integer opcode is rejected: " + se[:300], "schema": schema})
                    continue
                open(os.path.join(d, "main.go"), "w").write('package main\n\nimport (\n\t"fmt"\n\n\t"wt/pkg"\n)\n\nfunc main() { fmt.Println(uint64(pkg.AOpCode)) }\n')
                open(os.path.join(d, "go.mod"), "w").write("module wt\n\ngo 1.21\n\nrequire github.com/200sc/bebop v0.0.0\n\nreplace github.com/200sc/bebop => %s\n" % REPO)
                rc, so, se = sh(["go", "run", "."], cwd=d, timeout=300)
                if rc != 0 or so.strip() != str(val):
                    found = True
                    if len(run.violations) < 6:
                        run.violation({"what": "the schema is accepted but the generated opcode constant does not carry the schema's value", "schema": schema,
                                       "schema_value": val, "go_value": so.strip() if rc == 0 else ("does not build: " + se[:300])})
        # layout between the attribute and its record: whatever is accepted still carries the opcode (integer and 4-character forms)
        for lit, val in (("7", 7), ("0x12345678", 0x12345678), ('"ABCD"', 0x44434241)):
            for gap in ("\n\n", "\n\n\n", "\r\n", "\r\n\r\n", " ", "", "\n\t", "\n// c\n", "\n\n// c\n", "\n// c\n\n", " // c\n", "\n/* c */\n", "\n\n/* c */\n\n"):
                for rec in ("struct A { int32 x; }", "message A { 1 -> int32 x; }", "union A { 1 -> struct B { int32 x; } }", "readonly struct A { int32 x; }"):
                    schema = "// head\n\n[opcode(%s)]%s%s\n" % (lit, gap, rec)
                    shutil.rmtree(d, ignore_errors=True)
                    os.makedirs(os.path.join(d, "pkg"))
                    open(os.path.join(d, "schema.bop"), "w", newline="").write(schema)
                    rc, so, se = sh([bgen, os.path.join(d, "schema.bop"), os.path.join(d, "pkg", "gen.go"), "pkg", "0"], timeout=120)
                    total += 1
                    run.nontrivial("opcode %s, gap %r, %s" % (lit, gap, rec.split()[0]))
                    if rc != 0:
                        continue
                    gen = open(os.path.join(d, "pkg", "gen.go")).read()
                    m = re.search(r"AOpCode\s*(?:uint32\s*)?=\s*(0x[0-9a-fA-F]+|\d+)", gen)
                    if not m or int(m.group(1), 0) != val:
                        found = True
                        if len(run.violations) < 6:
                            run.violation({"what": "the schema is accepted but the generated package does not carry the record's opcode", "schema": schema, "schema_value": val,
                                           "go_value": m.group(0) if m else "no AOpCode constant in the generated file"})
    finally:
        shutil.rmtree(d, ignore_errors=True)
    run.count("evaluations", total)
    if broken:
        run.broken_tie(broken)
        if not found:
            run.violation({"what": "C15 is no longer shown to hold", "broken_kind": broken.kind, "no_longer_checks": broken.name, "detail": broken.detail[-1500:]}, no_input=True)
    run.finish()
