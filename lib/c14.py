# C14: parsing, validating, generating and formatting are pure and repeatable - partial by nature (no scheduler model).
import os, shutil
from vcommon import *
import c18, front, frontgen, wirerun


# every way a type expression can name a record or an enum (plain, array, map value, nested), in structs, messages and union branches, with tags and deprecations:
# whatever Generate caches or rewrites while spelling these under one option set must not show under another
VALID_MIX = """enum Color { Red = 1; Green = 2; }
struct Item { int32 id; string name; }
message Note { 1 -> string text; 2 -> Item item; }
struct Bag {
    //[tag(json:"items")]
    map[string, Item] items;
    map[uint8, Color] colors;
    //[tag(json:"list")]
    //[tag(json:"listing,omitempty")]
    //[tag(db:"list")]
    //[tag(flag)]
    Item[] list;
    map[guid, map[string, Note[]]] deep;
    array[Color] cs;
    date when;
}
message Box { 1 -> map[string, Item] m; 2 -> Color[] cs; [deprecated("x")] 3 -> Item old; 4 -> Bag bag; }
union Either { 1 -> struct L { map[int32, Item] m; } 2 -> message R { 1 -> Item[] xs; } }
const int32 k = 5;
"""
VALID_MIX_IMPORTS = ("""import "lib.bop"
const string go_package = "example.com/root";
struct Uses { map[string, LibItem] m; LibItem[] xs; LibColor c; map[uint16, LibNote[]] deep; }
message M { 1 -> map[string, LibItem] m; 2 -> LibColor[] cs; }
""", {"lib.bop": """const string go_package = "example.com/lib";
enum LibColor { A = 1; B = 2; }
struct LibItem { int32 id; map[string, LibColor] cs; }
message LibNote { 1 -> LibItem item; }
"""})
VALID_MIX = (VALID_MIX, {})


def check(tier, seed, replay=None):
    run = Run("C14", tier, seed)
    run.cov["rule"] = ("(a) concurrency: one File value (schemas with 0-3 imports, several go_packages with types used from each, separate and combined mode) shared by 16 goroutines calling "
                       "Generate and Validate repeatedly in a race-detector build: all outputs must be byte-identical, the File deep-equal before / after, no data race reported; "
                       "(a') one File under 32 different option sets (private / tags / pointer receivers / unsafe x import mode), sequentially and from 8 goroutines: every output must equal what a freshly parsed File gives under the same options, File unchanged; (b) repetition: ReadFile, Validate and Format repeated 12 times on every testdata file and on generated schemas: identical File, identical bytes; (c) the same three on 24 texts at a time from 12 goroutines at once (race detector on): every result equal to the call made alone; "
                       "the text of a Validate error may differ only as listed in the known finding; distinct = distinct (schema, mode)")
    run.cov["trusted_base"] = TRUSTED_BASE_COMMON + ["the Go race detector as the witness of data races; the slice model of coq/sys/Sys.v (backing array, len, cap; append in place iff it fits)",
                                                     "translator T5 (go/cmd/t5): which receiver slices File.Generate appends to and whether each is cut to cap = len (or copied) before every append - decided "
                                                     "syntactically (cut at top level or under `if len(G) != 0` with every append inside `range G`); any other use of a receiver slice is a translation failure"]
    broken = None
    try:
        run_translator("t5", [os.path.join(REPO, "gen.go")], "gen/GenAppends.v", "T5(gen.go: File.Generate)")
        proof_step(run, "props/C14.v", ["C14_footprint", "C14_appends"])
    except BrokenTie as e:
        broken = e
    try:
        gx = c18.gexec_bin(race=True)
    except BrokenTie as e:
        run.violation({"what": "the generate harness no longer builds against /repo", "detail": str(e)}, no_input=True)
        run.finish()
    rng = SplitMix64(seed).fork("C14")
    d = os.path.join(WORK, "c14-%d" % os.getpid())
    shutil.rmtree(d, ignore_errors=True)
    os.makedirs(d)
    found = False
    ops, metas = [], []
    try:
        # (a) shared File under concurrent Generate
        shapes = [(1, [[]]), (2, [[1], []]), (3, [[1, 2], [], []]), (4, [[1, 2, 3], [], [3], []]), (3, [[1], [2], []])]
        k = 0
        for n, adj in shapes:
            for extra_defs in (0, 3, 7):
                for mode in ("separate", "combined"):
                    k += 1
                    cd = os.path.join(d, "s%d" % k)
                    pkgs = list(range(n)) if mode == "separate" else [None] * n
                    paths = c18.layout_files(cd, n, adj, pkgs, [0] + [1 + i % 3 for i in range(n - 1)])
                    # the root uses a type of every imported package, and has enough definitions of its own to leave spare capacity in its slices
                    with open(paths[0], "a") as f:
                        used = sorted({j for j in range(1, n)})
                        f.write("struct Uses { %s }\n" % " ".join("T%d u%d;" % (j, j) for j in used))
                        for e in range(extra_defs):
                            f.write("struct X%d { int32 a; }\nmessage Y%d { 1 -> int32 a; }\nenum Z%d { A%d = 1; }\nunion W%d { 1 -> struct WS%d { int32 a; } }\nconst int32 k%d = %d;\n" % (e, e, e, e, e, e, e, e))
                    reps = 40 if tier == "thorough" else 12
                    ops.append("CONC %s %s 16 %d" % (mode, paths[0], reps))
                    metas.append(("concurrent-generate", "%d files, %d extra definitions, %s" % (n, extra_defs * 5, mode)))
        # (a') ONE File, DIFFERENT option sets (32 of them), in sequence and from 8 goroutines: each output must be what a fresh File gives under those options
        mixed = [VALID_MIX, VALID_MIX_IMPORTS]
        for i, (root, others) in enumerate(mixed):
            cd = os.path.join(d, "mix%d" % i)
            os.makedirs(cd)
            for name, txt in others.items():
                open(os.path.join(cd, name), "w").write(txt)
            open(os.path.join(cd, "root.bop"), "w").write(root)
            ops.append("MIX %s 8 %d" % (os.path.join(cd, "root.bop"), 24 if tier == "thorough" else 8))
            metas.append(("mixed-options", "schema %d" % i))
        # (b) repetition on files
        files = [os.path.join(REPO, name) for name, b in front.testdata_files()]
        asts = front.gen_asts(rng, 120 if tier == "thorough" else 30)
        for i, items in enumerate(asts):
            p = os.path.join(d, "gen%d.bop" % i)
            open(p, "w").write(frontgen.render(items, frontgen.Layout(rng)))
            files.append(p)
        # schemas with SEVERAL semantic errors: which one Validate reports must not change from call to call
        multi = ["message M { 1 -> int32 a; 2 -> int32 a; 3 -> int32 b; 4 -> int32 b; 5 -> int32 c; 6 -> int32 c; }\n",
                 "message M { 1 -> No1 a; 2 -> No2 b; 3 -> No3 c; 4 -> No4 d; 5 -> No5 e; 6 -> No6 f; }\n",
                 "union U { 1 -> struct A { } 2 -> struct A { } 3 -> struct B { } 4 -> struct B { } 5 -> struct C { } 6 -> struct C { } }\n",
                 "struct S1 { S2 a; }\nstruct S2 { S3 a; }\nstruct S3 { S4 a; }\nstruct S4 { S5 a; }\nstruct S5 { S6 a; }\nstruct S6 { S1 a; }\n",
                 "struct A { B b; }\nstruct B { A a; }\nstruct C { D d; }\nstruct D { C c; }\nstruct E { F f; }\nstruct F { E e; }\n",
                 "union U { 1 -> struct A { int32 x; int32 x; } 2 -> struct B { int32 y; int32 y; } 3 -> message C { 1 -> int32 z; 2 -> int32 z; 3 -> int32 w; 4 -> int32 w; } }\n",
                 "struct T { int32 a; }\nunion U { 1 -> struct T { } 2 -> struct int32 { } 3 -> struct U { } }\nunion V { 1 -> struct T { } 2 -> struct Q { } }\nunion W { 1 -> struct Q { } }\n"]
        for i, txt in enumerate(multi):
            p = os.path.join(d, "multi%d.bop" % i)
            open(p, "w").write(txt)
            files.append(p)
        for p in files:
            ops.append("PURE %s %d" % (p, 12 if "multi" not in os.path.basename(p) else 40))
            metas.append(("repeat", os.path.relpath(p, REPO) if p.startswith(REPO) else os.path.basename(p)))
        # (c) ReadFile / Validate / Format of many texts at once from 12 goroutines (they share no File, only whatever state the package keeps): every result must be
        #     what the same call gives alone
        accepted = [p for p in files if "multi" not in os.path.basename(p)]
        for k in range(0, len(accepted), 24):
            grp = accepted[k:k + 24]
            ops.append("CPURE 12 %d %s" % (3 if tier != "thorough" else 8, ",".join(grp)))
            metas.append(("concurrent-pure", "%d texts from %s" % (len(grp), os.path.basename(grp[0]))))
        res = run_lines("GORACE=halt_on_error=1 exec %s" % gx, ops, timeout=1500)
        race_log = ""
    finally:
        shutil.rmtree(d, ignore_errors=True)
    n = 0
    for (kind, what), op, g in zip(metas, ops, res):
        n += 1
        run.nontrivial(op)
        bad = None
        if g.startswith("CRASH"):
            bad = "the process died (the race detector aborts on a data race, exit status 66): %s" % g[:300]
        elif kind == "mixed-options":
            if g != "mix sequential-differing=0 concurrent-differing=0 file-changed=false":
                bad = "Generate on one File under different option sets: %s" % g
        elif kind == "concurrent-pure":
            if g != "cpure differing=[]":
                bad = "ReadFile / Validate / Format called from 12 goroutines at once give results that differ from the same calls made alone: %s" % g
        elif kind == "concurrent-generate":
            if "differing=0" not in g or "file-changed=false" not in g:
                bad = "concurrent Generate calls on one File: %s" % g
        else:
            if g != "pure differing=[]":
                parts = g[len("pure differing=["):-1].split(" ")
                only_text = all(p.startswith("validate-error-text") for p in parts if p)
                if only_text and run.known("C14/validate-error-text-depends-on-map-order", "the text of a Validate error depends on map iteration order"):
                    continue
                bad = "repeated calls on the same input disagree: %s" % g[:300]
        if bad:
            found = True
            if len(run.violations) < 4:
                run.violation({"what": bad, "case": what, "op": op})
        if n % 37 == 0:
            run.sample({"case": what, "result": g[:120]})
    run.count("evaluations", n)
    if broken:
        run.broken_tie(broken)
        if not found:
            run.violation({"what": "C14 is no longer shown to hold", "broken_kind": broken.kind, "no_longer_checks": broken.name, "detail": broken.detail[-1500:]}, no_input=True)
    run.finish()
