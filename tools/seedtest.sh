#!/bin/bash
# Apply each seeded change to /repo, run the target property's quick check, expect a VIOLATION, restore /repo.
# Usage: tools/seedtest.sh [seed-dir-name ...]   (default: every directory under seeded/)
cd "$(dirname "$0")/.." || exit 2
seeds=("$@"); [ ${#seeds[@]} -eq 0 ] && seeds=($(ls seeded))
missed=0
for sd in "${seeds[@]}"; do
  id=${sd%%-*}
  p=seeded/$sd/patch.diff; [ -f seeded/$sd/patch.rebased.diff ] && p=seeded/$sd/patch.rebased.diff
  if git -C /repo status --short | grep -q .; then echo "/repo is not clean"; exit 2; fi
  if ! git -C /repo apply "$PWD/$p"; then echo "$sd: patch does not apply"; missed=$((missed+1)); continue; fi
  ./check $id > .work/seedtest-$sd.log 2>&1; rc=$?
  v=$(grep -c '^VIOLATION' .work/seedtest-$sd.log)
  git -C /repo checkout -- . ; git -C /repo clean -fdq
  if [ $rc -ne 0 ] && [ $v -gt 0 ]; then echo "$sd: caught ($v violation line(s); $(grep -c no-failing-input-found .work/seedtest-$sd.log) without input)"; else echo "$sd: MISSED (rc=$rc)"; missed=$((missed+1)); fi
done
# the generated model files and evidence now describe the last seeded tree: regenerate from the clean one
./check setup >/dev/null 2>&1
for id in $(printf '%s\n' "${seeds[@]}" | sed 's/-.*//' | sort -u); do ./check $id >/dev/null 2>&1 || echo "WARNING: ./check $id does not pass on the clean tree"; done
echo "missed=$missed"
exit $missed
