(* Driver around the extracted front-end model (coq/extract/ExtractFront.v).  One op per line, one result line per op:
     TOK k hex   the first len+3 results of Next() over the input (reader fails with an I/O error after k bytes when k >= 0)
     READ k hex  ReadFile: OK + canonical dump of the File | ERR | PANIC | FUEL
     FMT hex     Format: OK hex | ERR | PANIC | FUEL
     VAL hex     ReadFile + Validate: unparsable | accept | reject
   Sub-lines of a result are joined with " ; ". *)
open Frontmodel
include Conv_inc

let rec i64_of_pos = function XH -> 1L | XO p -> Int64.mul 2L (i64_of_pos p) | XI p -> Int64.add (Int64.mul 2L (i64_of_pos p)) 1L
let i64_of_n = function N0 -> 0L | Npos p -> i64_of_pos p
let i64_of_z = function Z0 -> 0L | Zpos p -> i64_of_pos p | Zneg p -> Int64.neg (i64_of_pos p)
let hx l = if l = [] then "" else hex_of_bytes l
let data_of h = if h = "-" then [] else bytes_of_hex h
let rec take n l = if n = 0 then [] else match l with [] -> [] | x :: r -> x :: take (n-1) r
let b2s b = if b then "true" else "false"
let ek = function KEOF -> "EOF" | KUEOF -> "UEOF" | KIO -> "IO" | KOther -> "OTHER"
let errs e = "[" ^ String.concat "," (List.map ek e) ^ "]"

let rec dump_type = function
  | FSimple s -> "S:" ^ hx s
  | FArray t -> "A(" ^ dump_type t ^ ")"
  | FMap (k, v) -> "M(" ^ hx k ^ "," ^ dump_type v ^ ")"
let dump_tags ts = "[" ^ String.concat "," (List.map (fun t -> Printf.sprintf "%s:%s:%s" (hx t.tg_key) (hx t.tg_value) (b2s t.tg_bool)) ts) ^ "]"
let out = Buffer.create 4096
let pr fmt = Printf.ksprintf (fun s -> Buffer.add_string out s; Buffer.add_string out " ; ") fmt
let dump_field pre fd = pr "%sfield %s c=%s dm=%s d=%s %s %s" pre (hx fd.f_name) (hx fd.f_comment) (hx fd.f_depmsg) (b2s fd.f_dep) (dump_type fd.f_type) (dump_tags fd.f_tags)
let dump_struct pre st =
  pr "%sstruct %s c=%s op=%Lu ro=%s" pre (hx st.s_name) (hx st.s_comment) (i64_of_n st.s_opcode) (b2s st.s_readonly);
  List.iter (dump_field (pre ^ " ")) st.s_fields
let sort_idx l = List.sort (fun (a,_) (b,_) -> compare (int_of_n a) (int_of_n b)) l
let dump_message pre m =
  pr "%smessage %s c=%s op=%Lu" pre (hx m.m_name) (hx m.m_comment) (i64_of_n m.m_opcode);
  List.iter (fun (i, fd) -> pr "%s idx %d" pre (int_of_n i); dump_field (pre ^ " ") fd) (sort_idx m.m_fields)
let dump_file f =
  pr "imports %s" (String.concat "," (List.map hx f.imports)); pr "gopackage %s" (hx f.gopackage);
  List.iter (dump_struct "") f.structs;
  List.iter (dump_message "") f.messages;
  List.iter (fun e ->
    pr "enum %s c=%s t=%s u=%s" (hx e.e_name) (hx e.e_comment) (hx e.e_simple) (b2s e.e_unsigned);
    List.iter (fun o -> pr " opt %s c=%s dm=%s d=%s v=%Ld uv=%Lu" (hx o.o_name) (hx o.o_comment) (hx o.o_depmsg) (b2s o.o_dep) (i64_of_z o.o_value) (i64_of_n o.o_uvalue)) e.e_opts) f.enums;
  List.iter (fun u ->
    pr "union %s c=%s op=%Lu" (hx u.un_name) (hx u.un_comment) (i64_of_n u.un_opcode);
    List.iter (fun (i, uf) ->
      pr " idx %d dm=%s d=%s %s" (int_of_n i) (hx uf.u_depmsg) (b2s uf.u_dep) (dump_tags uf.u_tags);
      (match uf.u_msg with Some m -> dump_message "  " m | None -> ());
      (match uf.u_struct with Some s -> dump_struct "  " s | None -> ())) (sort_idx u.un_fields)) f.unions;
  List.iter (fun c -> pr "const %s c=%s t=%s v=%s" (hx c.c_name) (hx c.c_comment) (hx c.c_type) (hx c.c_value)) f.consts

let () =
  try while true do
    let line = input_line stdin in
    Buffer.clear out;
    (try
      (match String.split_on_char ' ' line with
      | ["TOK"; ks; h] ->
        let k = int_of_string ks in
        let data = data_of h in
        let input = if k >= 0 then take k data else data in
        let total = List.length data + 3 in
        let st = { buf = { rest = input; lastByte = None; lastRune = None; failing = (k >= 0) }; errs = [] } in
        let rs = next_results (nat_of_int total) st in
        List.iter (function
          | NT (t, e) -> pr "T %d %s %s" (int_of_n t.kind) (hx t.concrete) (errs e)
          | NF e -> pr "F %s" (errs e)
          | NP -> pr "PANIC") rs
      | ["READ"; ks; h] ->
        let k = int_of_string ks in
        let data = data_of h in
        let input = if k >= 0 then take k data else data in
        (match read_file input (k >= 0) with
         | POk (f, _) -> pr "OK"; dump_file f
         | PErr -> pr "ERR" | PPanic -> pr "PANIC" | PFuel | PEnd -> pr "FUEL")
      | ["FMT"; h] ->
        (match format (data_of h) with
         | POk (b, _) -> pr "OK %s" (hx b)
         | PErr -> pr "ERR" | PPanic -> pr "PANIC" | PFuel | PEnd -> pr "FUEL")
      | ["VAL"; h] ->
        (match read_and_validate (data_of h) with
         | None -> pr "unparsable" | Some true -> pr "accept" | Some false -> pr "reject")
      | _ -> pr "?")
    with Stack_overflow -> pr "model-stack-overflow" | Failure m -> pr "model-failure %s" m);
    print_string (Buffer.contents out); print_newline ()
  done with End_of_file -> ()
