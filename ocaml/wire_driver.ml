(* Driver around the extracted wire model (coq/extract/ExtractWire.v): argv.(1) = schema file, ops on stdin, one result
   line per op.  Value syntax (whitespace separated tokens, shared with the Go executor and the Python orchestrator):
     B0|B1   Z<hex, optional leading ->   X<hex|->   A<n> v*n   P<n> (k v)*n   T<n> v*n   G<n> (N | J v)*n   U<disc> v   U-  *)
open Wiremodel
include Conv_inc

let prims = [| PBool; PByte; PUint8; PUint16; PInt16; PUint32; PInt32; PUint64; PInt64; PFloat32; PFloat64; PString; PGuid; PDate |]

(* ---- token stream ---- *)
type toks = { a : string array; mutable i : int }
let next t = let s = t.a.(t.i) in t.i <- t.i + 1; s
let tail s = String.sub s 1 (String.length s - 1)

let rec parse_ty t : ty =
  let s = next t in
  match s.[0] with
  | 'p' -> TPrim prims.(int_of_string (tail s))
  | 'r' -> TRef (n_of_int (int_of_string (tail s)))
  | 'a' -> TArr (parse_ty t)
  | 'm' -> let k = prims.(int_of_string (tail s)) in TMap (k, parse_ty t)
  | _ -> failwith ("bad type token " ^ s)

let rec parse_value t : value =
  let s = next t in
  let n () = int_of_string (tail s) in
  match s.[0] with
  | 'B' -> VB (s = "B1")
  | 'Z' -> VZ (z_of_hex (tail s))
  | 'X' -> VS (bytes_of_hex (tail s))
  | 'A' -> let k = n () in VArr (List.init k (fun _ -> parse_value t))
  | 'P' -> let k = n () in VMap (List.init k (fun _ -> let a = parse_value t in let b = parse_value t in (a, b)))
  | 'T' -> let k = n () in VStruct (List.init k (fun _ -> parse_value t))
  | 'G' -> let k = n () in
      VMsg (List.init k (fun _ -> match next t with "N" -> None | "J" -> Some (parse_value t) | x -> failwith ("bad option " ^ x)))
  | 'U' -> if s = "U-" then VUnion (N0, VStruct []) else let d = n_of_int (n ()) in VUnion (d, parse_value t)
  | _ -> failwith ("bad value token " ^ s)

let schema_tbl : (int, def) Hashtbl.t = Hashtbl.create 1024
let schema : schema = fun id -> Hashtbl.find_opt schema_tbl (int_of_n id)

let load_schema path =
  let ic = open_in path in
  (try while true do
    let line = input_line ic in
    if String.length line > 0 then begin
      let t = { a = Array.of_list (List.filter (fun x -> x <> "") (String.split_on_char ' ' line)); i = 0 } in
      let kind = next t in
      let id = int_of_string (next t) in
      let k = int_of_string (next t) in
      let d = match kind with
        | "S" -> DStruct (List.init k (fun _ -> parse_ty t))
        | "M" ->
          let fs = List.init k (fun _ -> let idx = int_of_string (next t) in let dep = next t = "1" in let ty = parse_ty t in (idx, dep, ty)) in
          DMsg (List.map (fun (i, _, ty) -> (n_of_int i, ty)) fs,
                List.filter_map (fun (i, dep, _) -> if dep then Some (n_of_int i) else None) fs)
        | "U" -> DUnion (List.init k (fun _ -> let d = int_of_string (next t) in let m = int_of_string (next t) in (n_of_int d, n_of_int m)))
        | x -> failwith ("bad def kind " ^ x) in
      Hashtbl.replace schema_tbl id d
    end
  done with End_of_file -> ());
  close_in ic

(* ---- printing ---- *)
let rec pv b (v : value) =
  match v with
  | VB x -> Buffer.add_string b (if x then "B1 " else "B0 ")
  | VZ z -> Buffer.add_string b ("Z" ^ z_to_hex z ^ " ")
  | VS s -> Buffer.add_string b ("X" ^ hex_of_bytes s ^ " ")
  | VArr l -> Buffer.add_string b (Printf.sprintf "A%d " (List.length l)); List.iter (pv b) l
  | VMap l -> Buffer.add_string b (Printf.sprintf "P%d " (List.length l)); List.iter (fun (k, x) -> pv b k; pv b x) l
  | VStruct l -> Buffer.add_string b (Printf.sprintf "T%d " (List.length l)); List.iter (pv b) l
  | VMsg l -> Buffer.add_string b (Printf.sprintf "G%d " (List.length l));
      List.iter (fun o -> match o with None -> Buffer.add_string b "N " | Some x -> Buffer.add_string b "J "; pv b x) l
  | VUnion (i, x) -> Buffer.add_string b (Printf.sprintf "U%d " (int_of_n i)); pv b x
let value_to_s v = let b = Buffer.create 64 in pv b v; String.trim (Buffer.contents b)

let site_s = function
  | SPrimRead -> "prim" | SStrRead -> "str" | SCount -> "count" | SCopy -> "copy" | SHeader -> "header" | SIndex -> "index"
  | SMakeArr -> "makearr" | SMakeMap -> "makemap" | SMakeStr -> "makestr" | SNoDef -> "nodef"

let lim64 = Some (n_of_int 64)

(* unknown-discriminator unions print as U- like the Go side (no member set) *)
let rec canon (t : ty) (v : value) : value =
  match t, v with
  | TArr t', VArr l -> VArr (List.map (canon t') l)
  | TMap (_, t'), VMap l -> VMap (List.map (fun (k, x) -> (k, canon t' x)) l)
  | TRef id, VStruct l -> (match schema id with Some (DStruct fs) when List.length fs = List.length l -> VStruct (List.map2 canon fs l) | _ -> v)
  | TRef id, VMsg l -> (match schema id with
      | Some (DMsg (fs, _)) when List.length fs = List.length l -> VMsg (List.map2 (fun (_, ft) o -> match o with None -> None | Some x -> Some (canon ft x)) fs l)
      | _ -> v)
  | TRef id, VUnion (i, x) -> (match schema id with
      | Some (DUnion brs) -> (match List.find_opt (fun (d, _) -> d = i) brs with
          | Some (_, m) -> VUnion (i, canon (TRef m) x)
          | None -> VS [] (* marker, printed as U- below *))
      | _ -> v)
  | _, _ -> v
let rec pvc b v = match v with
  | VS [] -> () | _ -> ()
let value_to_s_t t v =
  (* print with U- for empty unions: replace the marker produced by canon *)
  let rec go b (t : ty) (v : value) =
    match t, v with
    | TRef id, VUnion (i, x) -> (match schema id with
        | Some (DUnion brs) -> (match List.find_opt (fun (d, _) -> d = i) brs with
            | Some (_, m) -> Buffer.add_string b (Printf.sprintf "U%d " (int_of_n i)); go b (TRef m) x
            | None -> Buffer.add_string b "U- ")
        | _ -> pv b v)
    | TArr t', VArr l -> Buffer.add_string b (Printf.sprintf "A%d " (List.length l)); List.iter (go b t') l
    | TMap (_, t'), VMap l -> Buffer.add_string b (Printf.sprintf "P%d " (List.length l)); List.iter (fun (k, x) -> pv b k; go b t' x) l
    | TRef id, VStruct l -> (match schema id with
        | Some (DStruct fs) when List.length fs = List.length l ->
          Buffer.add_string b (Printf.sprintf "T%d " (List.length l)); List.iter2 (go b) fs l
        | _ -> pv b v)
    | TRef id, VMsg l -> (match schema id with
        | Some (DMsg (fs, _)) when List.length fs = List.length l ->
          Buffer.add_string b (Printf.sprintf "G%d " (List.length l));
          List.iter2 (fun (_, ft) o -> match o with None -> Buffer.add_string b "N " | Some x -> Buffer.add_string b "J "; go b ft x) fs l
        | _ -> pv b v)
    | _, _ -> pv b v in
  let b = Buffer.create 64 in go b t v; String.trim (Buffer.contents b)

let () =
  load_schema Sys.argv.(1);
  let out = Buffer.create 65536 in
  (try while true do
    let line = input_line stdin in
    let t = { a = Array.of_list (List.filter (fun x -> x <> "") (String.split_on_char ' ' line)); i = 0 } in
    let res =
      try
        match next t with
        | "ENC" ->
          let ty = TRef (n_of_int (int_of_string (next t))) in
          let v = parse_value t in
          let g = genc schema ty v and e = enc schema ty v in
          Printf.sprintf "genc=%s enc=%s size=%d"
            (match g with Some b -> hex_of_bytes b | None -> "none") (match e with Some b -> hex_of_bytes b | None -> "none") (int_of_nat (size schema ty v))
        | "MTO" ->
          let ty = TRef (n_of_int (int_of_string (next t))) in
          let buf = bytes_of_hex (next t) in
          let v = parse_value t in
          (match mto schema true ty v buf O with
           | Some (b, n) -> Printf.sprintf "ok %s %d" (hex_of_bytes b) (int_of_nat n)
           | None -> "panic")
        | "SENC" ->
          let ty = TRef (n_of_int (int_of_string (next t))) in
          let fi = int_of_string (next t) in
          let v = parse_value t in
          let (w, _) = senc (fun k -> int_of_nat k = fi) schema ty v ew0 in
          Printf.sprintf "out=%s calls=%d err=%d" (hex_of_bytes w.out) (int_of_nat w.calls) (if w.werr then 1 else 0)
        | "DEC" ->
          let ty = TRef (n_of_int (int_of_string (next t))) in
          let safe = next t = "1" in
          let bs = bytes_of_hex (next t) in
          let fuel = nat_of_int (List.length bs + 80) in
          (match dec3 schema { safe = safe; lim = lim64 } fuel ty bs with
           | Ok ((v, a), e) -> Printf.sprintf "ok %s | adv=%d ex=%d" (value_to_s_t ty v) (int_of_nat a) (int_of_nat e)
           | Err -> "err" | Panic x -> "panic " ^ site_s x | Excess x -> "excess " ^ site_s x | OutOfFuel -> "fuel")
        | "SDEC" ->
          let ty = TRef (n_of_int (int_of_string (next t))) in
          let sch = next t in
          let bs = bytes_of_hex (next t) in
          let sched = if sch = "-" then [] else List.map (fun x -> nat_of_int (int_of_string x)) (String.split_on_char ',' sch) in
          let total = List.length bs in
          let fuel = nat_of_int (total + 80) in
          let r0 = { bs = { data = bs; sched = sched }; limits = []; err = false } in
          (match sdec schema lim64 fuel ty r0 with
           | Ok (v, r) -> Printf.sprintf "ok %s | consumed=%d err=%d" (value_to_s_t ty v) (total - List.length r.bs.data) (if r.err then 1 else 0)
           | Err -> "err" | Panic x -> "panic " ^ site_s x | Excess x -> "excess " ^ site_s x | OutOfFuel -> "fuel")
        | "SSEQ" ->
          (* SSEQ id,id,.. sched hex : records decoded back to back from ONE reader; position after each *)
          let ids = List.map int_of_string (String.split_on_char ',' (next t)) in
          let sch = next t in
          let bs = bytes_of_hex (next t) in
          let sched = if sch = "-" then [] else List.map (fun x -> nat_of_int (int_of_string x)) (String.split_on_char ',' sch) in
          let total = List.length bs in
          let fuel = nat_of_int (total + 80) in
          let r = ref { bs = { data = bs; sched = sched }; limits = []; err = false } in
          let outs = List.map (fun id ->
              let ty = TRef (n_of_int id) in
              match sdec schema lim64 fuel ty !r with
              | Ok (v, r') ->
                let res = if r'.err then Printf.sprintf "err @%d" (total - List.length r'.bs.data)
                  else Printf.sprintf "ok %s @%d" (value_to_s_t ty v) (total - List.length r'.bs.data) in
                (* every DecodeBebop call makes its own ErrorReader: the latch does not survive the call *)
                r := { r' with err = false; limits = [] }; res
              | Err -> "err" | Panic x -> "panic " ^ site_s x | Excess x -> "excess " ^ site_s x | OutOfFuel -> "fuel") ids in
          String.concat " ; " outs
        | x -> "? " ^ x
      with Stack_overflow -> "model-stack-overflow" | Failure m -> "model-failure " ^ m | Invalid_argument m -> "model-invalid " ^ m
    in
    Buffer.add_string out res; Buffer.add_char out '\n';
    if Buffer.length out > 60000 then (print_string (Buffer.contents out); Buffer.clear out)
  done with End_of_file -> ());
  print_string (Buffer.contents out)
