(* Driver around the extracted iohelp model: one op per input line, one result per output line. *)
open Iomodel
include Conv_inc
let rv_to_s v = match v with
  | RZ z -> "z:" ^ z_to_hex z
  | RB b -> if b then "b:1" else "b:0"
  | RBytes l -> "x:" ^ hex_of_bytes l
  | RDate DZero -> "d:zero"
  | RDate (DUnix z) -> "d:" ^ z_to_hex z
let rv_of_s s =
  let k = String.sub s 0 2 and r = String.sub s 2 (String.length s - 2) in
  match k with
  | "z:" -> RZ (z_of_hex r)
  | "b:" -> RB (r = "1")
  | "x:" -> RBytes (bytes_of_hex r)
  | "d:" -> if r = "zero" then RDate DZero else RDate (DUnix (z_of_hex r))
  | _ -> failwith "bad rv"
let out_to_s f o = match o with Ok a -> "ok " ^ f a | Err -> "err" | Panic -> "panic" | Unsafe -> "unsafe"
let () =
  let slices = Array.of_list all_slice_fns and streams = Array.of_list all_stream_fns in
  try while true do
    let line = input_line stdin in
    let t = Array.of_list (split_on '\t' line) in
    (match t.(0) with
     | "SR" -> print_endline (out_to_s rv_to_s (sl_read slices.(int_of_string t.(1)) (bytes_of_hex t.(2))))
     | "SW" -> print_endline (out_to_s hex_of_bytes (sl_write slices.(int_of_string t.(1)) (bytes_of_hex t.(2)) (rv_of_s t.(3))))
     | "TR" ->
       (* TR data idx,idx,... : reads on one fresh ErrorReader (8 zero bytes of scratch) over a reader delivering data then failing *)
       let r = ref { rest = bytes_of_hex t.(1); rerr = false; scratch = List.init 8 (fun _ -> N0) } in
       let total = List.length (!r).rest in
       let outs = List.map (fun i ->
           let (v, r') = st_read_sem errorReader_Read streams.(int_of_string i) !r in
           r := r'; out_to_s rv_to_s v) (split_on ',' t.(2)) in
       Printf.printf "%s | consumed=%d err=%b\n" (String.concat " ; " outs) (total - List.length (!r).rest) (!r).rerr
     | "TW" ->
       (* TW failidx idx=rv,idx=rv,... : writes on one fresh ErrorWriter whose underlying writer fails at call failidx (-1: never) *)
       let fi = int_of_string t.(1) in
       let w = ref { calls = []; wfail = (fun k -> int_of_nat k = fi); werr = false; wscratch = List.init 8 (fun _ -> N0) } in
       let bad = ref false in
       List.iter (fun item ->
           match split_on '=' item with
           | [i; v] -> (match st_write_sem streams.(int_of_string i) !w (rv_of_s v) with
               | Ok w' -> w := w' | _ -> bad := true)
           | _ -> failwith "bad TW item") (split_on ',' t.(2));
       if !bad then print_endline "panic" else
       Printf.printf "%s | err=%b\n" (String.concat "," (List.map hex_of_bytes (!w).calls)) (!w).werr
     | _ -> print_endline "?")
  done with End_of_file -> ()
