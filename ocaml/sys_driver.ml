(* Driver around the extracted import models (coq/extract/ExtractSys.v).
   IMP <mode> <n> <file0> ... <file n-1>   file = <pkg>/<imp,imp,..|->   imp = resolved file index, or x = a path that does not exist
   Root = file 0.  Prints: openerr | cycle | ok <imported file indices in worklist order> *)
open Sysmodel
include Conv_inc

let () =
  try while true do
    let line = input_line stdin in
    let t = Array.of_list (List.filter (fun x -> x <> "") (String.split_on_char ' ' line)) in
    (match t.(0) with
     | "IMP" ->
       let mode = t.(1) in
       let n = int_of_string t.(2) in
       let files = Array.init n (fun i ->
           match String.split_on_char '/' t.(3 + i) with
           | [p; imps] ->
             let l = if imps = "-" then [] else List.map (fun s -> if s = "x" then 9999 else int_of_string s) (String.split_on_char ',' imps) in
             (int_of_string p, l)
           | _ -> failwith "bad file") in
       let fs (k : n) : bfile option =
         let i = int_of_n k in
         if i >= 0 && i < n then Some { pkg = n_of_int (fst files.(i)); imps = List.map n_of_int (snd files.(i)) } else None in
       let rootpkg = n_of_int (fst files.(0)) in
       let queue = List.map (fun s -> (rootpkg, n_of_int s)) (snd files.(0)) in
       let fuel = nat_of_int (10 * n * n + 50) in
       (match work fuel fs queue [] [] with
        | OpenError -> print_endline "openerr"
        | WFuel -> print_endline "fuel"
        | Done (imported, edges) ->
          let cyc =
            if mode = "separate" then begin
              (* the package graph as AddEdge builds it: successors in insertion order *)
              let g (a : n) : n list = List.filter_map (fun (x, y) -> if x = a then Some y else None) edges in
              let nodes = List.sort_uniq compare (List.map fst edges) in
              match find_cycle (nat_of_int (4 * n + 20)) g nodes [] with
              | Found _ -> true | NotFound -> false | Fuel -> failwith "fuel"
            end else false in
          if cyc then print_endline "cycle"
          else print_endline ("ok " ^ String.concat "," (List.map (fun k -> string_of_int (int_of_n k)) imported)))
     | _ -> print_endline "?")
  done with End_of_file -> ()
