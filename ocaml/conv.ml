(* Conversions between the extracted Coq numbers (positive / N / Z / nat as inductives) and text.  Shared by drivers.
   Functorised over nothing: each driver opens its extracted module first and then includes this file textually
   (the constructors XH/XO/XI, N0/Npos, Z0/Zpos/Zneg, O/S must be in scope). *)
let rec pos_bits p = match p with XH -> [true] | XO q -> false :: pos_bits q | XI q -> true :: pos_bits q
let n_bits n = match n with N0 -> [] | Npos p -> pos_bits p
let rec bits_pos = function
  | [] -> None
  | b :: rest -> (match bits_pos rest with
      | None -> if b then Some XH else None
      | Some p -> Some (if b then XI p else XO p))
let bits_n bs = match bits_pos bs with None -> N0 | Some p -> Npos p
let hexdig = "0123456789abcdef"
let n_to_hex n =
  let bs = n_bits n in
  if bs = [] then "0" else begin
    let rec nibbles bs acc = match bs with
      | [] -> acc
      | _ ->
        let take k l = let rec go k l a = if k = 0 then (List.rev a, l) else match l with [] -> (List.rev a, []) | x :: r -> go (k-1) r (x :: a) in go k l [] in
        let (nb, rest) = take 4 bs in
        let v = List.fold_right (fun b a -> a * 2 + (if b then 1 else 0)) nb 0 in
        nibbles rest (hexdig.[v] :: acc) in
    let cs = nibbles bs [] in
    let b = Buffer.create 16 in List.iter (Buffer.add_char b) cs; Buffer.contents b
  end
let hexval c = match c with
  | '0'..'9' -> Char.code c - 48 | 'a'..'f' -> Char.code c - 87 | 'A'..'F' -> Char.code c - 55
  | _ -> failwith ("bad hex digit " ^ String.make 1 c)
let n_of_hex s =
  (* LSB-first bits *)
  let bits = ref [] in
  String.iter (fun c -> let v = hexval c in
    (* prepend so that after processing all chars, bits is LSB first: each new char is less significant *)
    bits := [v land 1 = 1; v land 2 = 2; v land 4 = 4; v land 8 = 8] @ !bits) s;
  bits_n !bits
let z_to_hex z = match z with Z0 -> "0" | Zpos p -> n_to_hex (Npos p) | Zneg p -> "-" ^ n_to_hex (Npos p)
let z_of_hex s =
  if String.length s > 0 && s.[0] = '-' then
    (match n_of_hex (String.sub s 1 (String.length s - 1)) with N0 -> Z0 | Npos p -> Zneg p)
  else (match n_of_hex s with N0 -> Z0 | Npos p -> Zpos p)
let rec nat_of_int k = if k <= 0 then O else S (nat_of_int (k - 1))
let rec int_of_nat n = match n with O -> 0 | S m -> 1 + int_of_nat m
let rec int_of_pos p = match p with XH -> 1 | XO q -> 2 * int_of_pos q | XI q -> 2 * int_of_pos q + 1
let int_of_n n = match n with N0 -> 0 | Npos p -> int_of_pos p
let rec pos_of_int k = if k = 1 then XH else if k land 1 = 0 then XO (pos_of_int (k lsr 1)) else XI (pos_of_int (k lsr 1))
let n_of_int k = if k <= 0 then N0 else Npos (pos_of_int k)
let byte_tbl = Array.init 256 n_of_int
(* byte strings as hex, two digits per byte; "-" is the empty string *)
let bytes_of_hex s =
  if s = "-" then [] else
  let n = String.length s / 2 in
  List.init n (fun i -> byte_tbl.(hexval s.[2*i] * 16 + hexval s.[2*i+1]))
let hex_of_bytes l =
  if l = [] then "-" else begin
    let b = Buffer.create 64 in
    List.iter (fun x -> let k = int_of_n x land 255 in Buffer.add_char b hexdig.[k lsr 4]; Buffer.add_char b hexdig.[k land 15]) l;
    Buffer.contents b
  end
let split_on c s = String.split_on_char c s
